//go:build verif

package main

import (
	"fmt"
	"reflect"
	"time"

	yamlv3 "gopkg.in/yaml.v3"
	metav1 "k8s.io/apimachinery/pkg/apis/meta/v1"

	"github.com/flant/shell-operator/pkg/hook/config"
	kemtypes "github.com/flant/shell-operator/pkg/kube_events_manager/types"
)

// project maps the loaded configuration to the abstract effective record of spec/HookConfig (Effective):
// generated ids, debug names, metadata labels and internal pointers are erased; absent strings are "".
func project(c *config.HookConfig) (out map[string]interface{}, problem string) {
	defer func() {
		if p := recover(); p != nil {
			out = nil
			problem = fmt.Sprintf("the loaded configuration is not well formed (projection panicked: %v)", p)
		}
	}()
	out = map[string]interface{}{}
	if c.OnStartup != nil {
		out["onStartup"] = map[string]interface{}{"name": c.OnStartup.BindingName, "order": c.OnStartup.Order,
			"allowFailure": c.OnStartup.AllowFailure}
	}
	if c.Settings != nil {
		out["settings"] = map[string]interface{}{
			"intervalMs": float64(c.Settings.ExecutionMinInterval) / float64(time.Millisecond),
			"burst":      c.Settings.ExecutionBurst}
	}
	scheds := []interface{}{}
	for _, s := range c.Schedules {
		scheds = append(scheds, map[string]interface{}{"name": s.BindingName, "crontab": s.ScheduleEntry.Crontab,
			"queue": s.Queue, "allowFailure": s.AllowFailure, "group": s.Group, "include": strs(s.IncludeSnapshotsFrom)})
	}
	out["schedules"] = scheds
	kubes := []interface{}{}
	for i, k := range c.OnKubernetesEvents {
		if k.Monitor == nil {
			return nil, fmt.Sprintf("kubernetes binding %d has no monitor configuration", i)
		}
		m := k.Monitor
		evs := []interface{}{}
		for _, e := range []kemtypes.WatchEventType{kemtypes.WatchEventAdded, kemtypes.WatchEventModified, kemtypes.WatchEventDeleted} {
			for _, x := range m.EventTypes {
				if x == e {
					evs = append(evs, string(e))
					break
				}
			}
		}
		for _, x := range m.EventTypes {
			if x != kemtypes.WatchEventAdded && x != kemtypes.WatchEventModified && x != kemtypes.WatchEventDeleted {
				evs = append(evs, "?"+string(x))
			}
		}
		var keep interface{} = k.KeepFullObjectsInMemory
		if m.KeepFullObjectsInMemory != k.KeepFullObjectsInMemory {
			keep = fmt.Sprintf("binding says %v, monitor says %v", k.KeepFullObjectsInMemory, m.KeepFullObjectsInMemory)
		}
		kb := map[string]interface{}{"name": k.BindingName, "kind": m.Kind, "apiVersion": m.ApiVersion, "events": evs,
			"sync": k.ExecuteHookOnSynchronization, "keep": keep, "jqFilter": m.JqFilter, "queue": k.Queue,
			"allowFailure": k.AllowFailure, "group": k.Group, "include": strs(k.IncludeSnapshotsFrom)}
		if m.NameSelector != nil {
			kb["nameSelector"] = nameSel(m.NameSelector)
		}
		if m.LabelSelector != nil {
			kb["labelSelector"] = labelSel(m.LabelSelector)
		}
		if m.FieldSelector != nil {
			exprs := []interface{}{}
			for _, e := range m.FieldSelector.MatchExpressions {
				exprs = append(exprs, map[string]interface{}{"field": e.Field, "operator": e.Operator, "value": e.Value})
			}
			kb["fieldSelector"] = map[string]interface{}{"matchExpressions": exprs}
		}
		if m.NamespaceSelector != nil {
			ns := map[string]interface{}{}
			if m.NamespaceSelector.NameSelector != nil {
				ns["nameSelector"] = nameSel(m.NamespaceSelector.NameSelector)
			}
			if m.NamespaceSelector.LabelSelector != nil {
				ns["labelSelector"] = labelSel(m.NamespaceSelector.LabelSelector)
			}
			kb["namespace"] = ns
		}
		kubes = append(kubes, kb)
	}
	out["kubernetes"] = kubes
	vals := []interface{}{}
	for _, v := range c.KubernetesValidating {
		w := v.Webhook
		vals = append(vals, map[string]interface{}{"name": v.BindingName, "group": v.Group, "include": strs(v.IncludeSnapshotsFrom),
			"failurePolicy": deref(w.FailurePolicy), "sideEffects": deref(w.SideEffects), "timeoutSeconds": deref(w.TimeoutSeconds),
			"rules": len(w.Rules)})
	}
	out["validating"] = vals
	muts := []interface{}{}
	for _, v := range c.KubernetesMutating {
		w := v.Webhook
		muts = append(muts, map[string]interface{}{"name": v.BindingName, "group": v.Group, "include": strs(v.IncludeSnapshotsFrom),
			"failurePolicy": deref(w.FailurePolicy), "sideEffects": deref(w.SideEffects), "timeoutSeconds": deref(w.TimeoutSeconds),
			"rules": len(w.Rules)})
	}
	out["mutating"] = muts
	convs := []interface{}{}
	for _, v := range c.KubernetesConversion {
		rules := []interface{}{}
		for _, r := range v.Webhook.Rules {
			rules = append(rules, map[string]interface{}{"fromVersion": r.FromVersion, "toVersion": r.ToVersion})
		}
		convs = append(convs, map[string]interface{}{"name": v.BindingName, "group": v.Group, "include": strs(v.IncludeSnapshotsFrom),
			"crdName": v.Webhook.CrdName, "conversions": rules})
	}
	out["conversion"] = convs
	return out, ""
}

func deref(p interface{}) interface{} {
	v := reflect.ValueOf(p)
	if v.Kind() == reflect.Ptr {
		if v.IsNil() {
			return nil
		}
		e := v.Elem()
		if e.Kind() == reflect.String {
			return e.String()
		}
		return e.Interface()
	}
	return p
}

func strs(s []string) []interface{} {
	out := []interface{}{}
	for _, x := range s {
		out = append(out, x)
	}
	return out
}

func nameSel(n *kemtypes.NameSelector) interface{} {
	return map[string]interface{}{"matchNames": strs(n.MatchNames)}
}

func labelSel(l *metav1.LabelSelector) interface{} {
	out := map[string]interface{}{}
	if len(l.MatchLabels) > 0 {
		ml := map[string]interface{}{}
		for k, v := range l.MatchLabels {
			ml[k] = v
		}
		out["matchLabels"] = ml
	}
	if len(l.MatchExpressions) > 0 {
		exprs := []interface{}{}
		for _, e := range l.MatchExpressions {
			x := map[string]interface{}{"key": e.Key, "operator": string(e.Operator)}
			if len(e.Values) > 0 {
				x["values"] = strs(e.Values)
			}
			exprs = append(exprs, x)
		}
		out["matchExpressions"] = exprs
	}
	return out
}

// checkYAML parses the YAML the harness wrote with an independent parser and compares it with the intended tree,
// so that a rendering mistake of the harness is never reported as a loader failure.
func checkYAML(y []byte, want map[string]interface{}) error {
	var got interface{}
	if err := yamlv3.Unmarshal(y, &got); err != nil {
		return err
	}
	if dp, d := diff("", norm(want), norm(got)); dp != "" {
		return fmt.Errorf("at %s: %s", dp, d)
	}
	return nil
}
