//go:build verif

// Command hookconfig binds spec/HookConfig to the real loader config.HookConfig.LoadAndValidate.
//
//	hookconfig replay -in cases.jsonl -out results.jsonl
//	    every line of -in is one TLC case: an abstract document (the JSON/YAML tree with marker strings for
//	    non-string scalars), the fault class ("none" for documents of the documented grammar) and the result the
//	    specification expects ("reject" or the effective configuration). The document is rendered as JSON and as
//	    YAML, both are loaded with the real loader, the result is projected to the abstract effective record and
//	    compared with TLC's expectation and with each other.
//	hookconfig fuzz -in cases.jsonl -out results.jsonl -n N
//	    exploration: seeded byte-level corruptions of rendered documents; the only demands are "no panic",
//	    "returns" and "error or configuration".
//
// Cases run in a supervised child process: a hang (the loader never returns) or a crash outside recover()
// is recorded for that case and the run continues behind it.
package main

import (
	"bufio"
	"encoding/base64"
	"encoding/json"
	"flag"
	"fmt"
	"math/rand"
	"os"
	"reflect"
	"regexp"
	"runtime/debug"
	"sort"
	"strings"
	"syscall"
	"time"

	"github.com/flant/shell-operator/pkg/hook/config"

	"verifharness/internal/supervise"
)

type Case struct {
	Stratum string          `json:"stratum"`
	Fault   string          `json:"fault"`
	Doc     json.RawMessage `json:"doc"`
	Why     string          `json:"why"`
	Expect  json.RawMessage `json:"expect"`
	Raw     string          `json:"raw_b64,omitempty"` // --replay of a byte-level finding: load these bytes as they are
}

type Result struct {
	Case   int    `json:"case"`
	OK     bool   `json:"ok"`
	Sig    string `json:"sig,omitempty"`
	Detail string `json:"detail,omitempty"`
	YAML   string `json:"yaml,omitempty"`
	JSON   string `json:"json,omitempty"`
	Loaded bool   `json:"loaded,omitempty"`
	// fuzz only
	Runs    int            `json:"runs,omitempty"`
	Outcome map[string]int `json:"outcome,omitempty"`
	Input   string         `json:"input_b64,omitempty"`
}

const (
	hangCPU  = 3 * time.Second
	hangWall = 150 * time.Second
)

func cpuTime() time.Duration {
	var ru syscall.Rusage
	if err := syscall.Getrusage(syscall.RUSAGE_SELF, &ru); err != nil {
		return 0
	}
	return time.Duration(ru.Utime.Nano() + ru.Stime.Nano())
}

var hangFile string

func hangInput(idx int) string {
	f, err := os.Open(hangFile)
	if err != nil {
		return ""
	}
	defer f.Close()
	last := ""
	sc := bufio.NewScanner(f)
	sc.Buffer(make([]byte, 1<<20), 1<<26)
	for sc.Scan() {
		var r struct {
			Case  int    `json:"case"`
			Input string `json:"input_b64"`
		}
		if json.Unmarshal(sc.Bytes(), &r) == nil && r.Case == idx {
			last = r.Input
		}
	}
	return last
}

type loadResult struct {
	cfg   *config.HookConfig
	err   error
	panic string
	stack string
}

// load runs the real loader. A panic is recovered and reported; a call that does not return makes the child exit
// (the goroutine cannot be stopped), the supervisor records the hang for this case.
func load(idx int, data []byte) loadResult {
	ch := make(chan loadResult, 1)
	go func() {
		var r loadResult
		defer func() {
			if p := recover(); p != nil {
				r.cfg = nil
				r.panic = fmt.Sprint(p)
				r.stack = string(debug.Stack())
			}
			ch <- r
		}()
		c := &config.HookConfig{}
		r.err = c.LoadAndValidate(data)
		if r.err == nil {
			r.cfg = c
		}
	}()
	// A load needs about a millisecond of CPU. It is called a hang when this process has burnt hangCPU of CPU time
	// since the call started (a runaway loop) or, as a fallback, when nothing came back after hangWall (blocked).
	// Wall-clock time alone is not used: on an oversubscribed machine a healthy call can be starved for seconds.
	start := time.Now()
	cpu0 := cpuTime()
	tick := time.NewTicker(50 * time.Millisecond)
	defer tick.Stop()
	for {
		select {
		case r := <-ch:
			return r
		case <-tick.C:
			burnt := cpuTime() - cpu0
			if burnt < hangCPU && time.Since(start) < hangWall {
				continue
			}
			// the input goes to a side file (stderr is truncated by the supervisor)
			if hangFile != "" {
				if f, err := os.OpenFile(hangFile, os.O_APPEND|os.O_WRONLY|os.O_CREATE, 0o644); err == nil {
					b, _ := json.Marshal(map[string]interface{}{"case": idx, "input_b64": base64.StdEncoding.EncodeToString(data)})
					f.Write(append(b, '\n'))
					f.Close()
				}
			}
			fmt.Fprintf(os.Stderr, "HANG case=%d LoadAndValidate did not return: %s of CPU time burnt, %s elapsed\n", idx,
				burnt.Round(time.Millisecond), time.Since(start).Round(time.Millisecond))
			os.Exit(3)
		}
	}
	return loadResult{}
}

// ---------------------------------------------------------------------------------------------------
// rendering

func decodeMarkers(v interface{}) interface{} {
	switch x := v.(type) {
	case string:
		switch {
		case x == "@true":
			return true
		case x == "@false":
			return false
		case x == "@null":
			return nil
		case strings.HasPrefix(x, "@n"):
			var n int
			if _, err := fmt.Sscanf(x[2:], "%d", &n); err == nil {
				return n
			}
		case strings.HasPrefix(x, "@f"):
			var f float64
			if _, err := fmt.Sscanf(x[2:], "%g", &f); err == nil {
				return f
			}
		}
		return x
	case []interface{}:
		out := make([]interface{}, len(x))
		for i := range x {
			out[i] = decodeMarkers(x[i])
		}
		return out
	case map[string]interface{}:
		out := make(map[string]interface{}, len(x))
		for k, e := range x {
			out[k] = decodeMarkers(e)
		}
		return out
	}
	return v
}

var plainRe = regexp.MustCompile(`^[A-Za-z_][A-Za-z0-9_./-]*$`)
var reserved = map[string]bool{"y": true, "n": true, "yes": true, "no": true, "on": true, "off": true, "true": true,
	"false": true, "null": true, "nan": true, "inf": true}

func yamlStr(s string, plain bool) string {
	if plain && plainRe.MatchString(s) && !reserved[strings.ToLower(s)] {
		return s
	}
	b, _ := json.Marshal(s) // a JSON string is a valid YAML double-quoted scalar
	return string(b)
}

type yamlStyle struct {
	plain   bool // plain scalars where that is safe
	flowSeq bool // leaf sequences in flow style
	rnd     *rand.Rand
}

func (st *yamlStyle) keys(m map[string]interface{}) []string {
	ks := make([]string, 0, len(m))
	for k := range m {
		ks = append(ks, k)
	}
	sort.Strings(ks)
	if st.rnd != nil {
		st.rnd.Shuffle(len(ks), func(i, j int) { ks[i], ks[j] = ks[j], ks[i] })
	}
	return ks
}

func isScalar(v interface{}) bool {
	switch v.(type) {
	case map[string]interface{}, []interface{}:
		return false
	}
	return true
}

func (st *yamlStyle) scalar(v interface{}) string {
	switch x := v.(type) {
	case nil:
		return "null"
	case bool:
		if x {
			return "true"
		}
		return "false"
	case int:
		return fmt.Sprintf("%d", x)
	case float64:
		if x == float64(int64(x)) {
			return fmt.Sprintf("%d", int64(x))
		}
		return fmt.Sprintf("%g", x)
	case string:
		return yamlStr(x, st.plain)
	}
	return fmt.Sprintf("%v", v)
}

func (st *yamlStyle) flow(v interface{}) string {
	switch x := v.(type) {
	case []interface{}:
		parts := make([]string, len(x))
		for i := range x {
			parts[i] = st.flow(x[i])
		}
		return "[" + strings.Join(parts, ", ") + "]"
	case map[string]interface{}:
		parts := []string{}
		for _, k := range st.keys(x) {
			parts = append(parts, yamlStr(k, false)+": "+st.flow(x[k]))
		}
		return "{" + strings.Join(parts, ", ") + "}"
	}
	if s, ok := v.(string); ok {
		return yamlStr(s, false)
	}
	return st.scalar(v)
}

func allScalars(x []interface{}) bool {
	for _, e := range x {
		if !isScalar(e) {
			return false
		}
	}
	return true
}

// value renders v as the value of a mapping key or sequence item whose introducer ("key:" or "-") has been written.
func (st *yamlStyle) value(sb *strings.Builder, v interface{}, indent int, inSeq bool) {
	pad := strings.Repeat(" ", indent)
	switch x := v.(type) {
	case map[string]interface{}:
		if len(x) == 0 {
			sb.WriteString(" {}\n")
			return
		}
		first := true
		for _, k := range st.keys(x) {
			if inSeq && first {
				sb.WriteString(" ")
			} else {
				if first {
					sb.WriteString("\n")
				}
				sb.WriteString(pad)
			}
			first = false
			sb.WriteString(yamlStr(k, st.plain) + ":")
			st.value(sb, x[k], indent+2, false)
		}
	case []interface{}:
		if len(x) == 0 {
			sb.WriteString(" []\n")
			return
		}
		if inSeq || (st.flowSeq && allScalars(x)) {
			sb.WriteString(" " + st.flow(x) + "\n")
			return
		}
		sb.WriteString("\n")
		for _, e := range x {
			sb.WriteString(pad + "-")
			st.value(sb, e, indent+2, true)
		}
	default:
		sb.WriteString(" " + st.scalar(v) + "\n")
	}
}

func renderYAML(doc map[string]interface{}, st *yamlStyle) []byte {
	var sb strings.Builder
	ks := st.keys(doc)
	for _, k := range ks {
		sb.WriteString(yamlStr(k, st.plain) + ":")
		st.value(&sb, doc[k], 2, false)
	}
	return []byte(sb.String())
}

func renderJSON(doc map[string]interface{}, indent bool) []byte {
	var b []byte
	if indent {
		b, _ = json.MarshalIndent(doc, "", "  ")
	} else {
		b, _ = json.Marshal(doc)
	}
	return b
}

// ---------------------------------------------------------------------------------------------------
// comparison

func norm(v interface{}) interface{} {
	b, err := json.Marshal(v)
	if err != nil {
		return fmt.Sprintf("unmarshalable: %v", err)
	}
	var out interface{}
	json.Unmarshal(b, &out)
	return out
}

var idxRe = regexp.MustCompile(`\[\d+\]`)

// diff returns the path of the first difference between want and got ("" when equal).
func diff(path string, want, got interface{}) (string, string) {
	switch w := want.(type) {
	case map[string]interface{}:
		g, ok := got.(map[string]interface{})
		if !ok {
			return path, fmt.Sprintf("want %s, got %s", js(want), js(got))
		}
		keys := map[string]bool{}
		for k := range w {
			keys[k] = true
		}
		for k := range g {
			keys[k] = true
		}
		ks := []string{}
		for k := range keys {
			ks = append(ks, k)
		}
		sort.Strings(ks)
		for _, k := range ks {
			wv, wok := w[k]
			gv, gok := g[k]
			p := path + "." + k
			if !wok {
				return p, fmt.Sprintf("unexpected %s", js(gv))
			}
			if !gok {
				return p, fmt.Sprintf("missing, want %s", js(wv))
			}
			if dp, d := diff(p, wv, gv); dp != "" {
				return dp, d
			}
		}
		return "", ""
	case []interface{}:
		g, ok := got.([]interface{})
		if !ok || len(g) != len(w) {
			return path, fmt.Sprintf("want %s, got %s", js(want), js(got))
		}
		for i := range w {
			if dp, d := diff(fmt.Sprintf("%s[%d]", path, i), w[i], g[i]); dp != "" {
				return dp, d
			}
		}
		return "", ""
	}
	if !reflect.DeepEqual(want, got) {
		return path, fmt.Sprintf("want %s, got %s", js(want), js(got))
	}
	return "", ""
}

func js(v interface{}) string {
	b, _ := json.Marshal(v)
	return string(b)
}

func sameSet(a, b interface{}) bool {
	as, ok1 := a.([]interface{})
	bs, ok2 := b.([]interface{})
	if !ok1 || !ok2 {
		return false
	}
	m := map[string]int{}
	for _, x := range as {
		m[js(x)] |= 1
	}
	for _, x := range bs {
		m[js(x)] |= 2
	}
	for _, v := range m {
		if v != 3 {
			return false
		}
	}
	return true
}

func lookup(v interface{}, path string) interface{} {
	// path like ".kubernetes[0].include"
	cur := v
	for _, part := range strings.Split(strings.TrimPrefix(path, "."), ".") {
		name := part
		idx := -1
		if i := strings.Index(part, "["); i >= 0 {
			name = part[:i]
			fmt.Sscanf(part[i:], "[%d]", &idx)
		}
		m, ok := cur.(map[string]interface{})
		if !ok {
			return nil
		}
		cur = m[name]
		if idx >= 0 {
			s, ok := cur.([]interface{})
			if !ok || idx >= len(s) {
				return nil
			}
			cur = s[idx]
		}
	}
	return cur
}

func short(s string, n int) string {
	if len(s) > n {
		return s[:n] + "..."
	}
	return s
}

func panicSig(stack string) string {
	// first frame of the code under test / its libraries below the panic call
	lines := strings.Split(stack, "\n")
	seenPanic := false
	for _, l := range lines {
		l = strings.TrimSpace(l)
		if strings.HasPrefix(l, "panic(") {
			seenPanic = true
			continue
		}
		if seenPanic && !strings.HasPrefix(l, "/") && !strings.HasPrefix(l, "runtime.") && strings.Contains(l, "(") {
			f := l[:strings.LastIndex(l, "(")]
			if i := strings.LastIndex(f, "/"); i >= 0 {
				f = f[i+1:]
			}
			return f
		}
	}
	return "unknown"
}

// ---------------------------------------------------------------------------------------------------
// replay

func replayCase(idx int, c Case, seed int64) Result {
	res := Result{Case: idx, OK: true}
	if c.Raw != "" {
		data, err := base64.StdEncoding.DecodeString(c.Raw)
		if err != nil {
			fatal("case %d: bad raw_b64: %v", idx, err)
		}
		res.YAML = string(data)
		if r := load(idx, data); r.panic != "" {
			res.OK = false
			res.Sig = "C10/panic/" + panicSig(r.stack)
			res.Detail = fmt.Sprintf("LoadAndValidate panicked: %s\n%s", r.panic, short(r.stack, 1500))
		}
		return res
	}
	var raw interface{}
	if err := json.Unmarshal(c.Doc, &raw); err != nil {
		fatal("case %d: bad doc: %v", idx, err)
	}
	doc, ok := decodeMarkers(raw).(map[string]interface{})
	if !ok {
		fatal("case %d: document is not an object", idx)
	}
	rnd := rand.New(rand.NewSource(seed*1000003 + int64(idx)))
	st := &yamlStyle{plain: rnd.Intn(2) == 0, flowSeq: rnd.Intn(2) == 0}
	if rnd.Intn(2) == 0 {
		st.rnd = rnd
	}
	y := renderYAML(doc, st)
	j := renderJSON(doc, rnd.Intn(2) == 0)
	if err := checkYAML(y, doc); err != nil {
		fatal("case %d: the harness rendered YAML that does not denote the document: %v\n%s", idx, err, y)
	}
	res.YAML, res.JSON = string(y), string(j)

	fail := func(sig, detail string) Result {
		res.OK = false
		res.Sig = sig
		res.Detail = detail
		return res
	}

	ry := load(idx, y)
	rj := load(idx, j)
	for _, r := range []struct {
		n string
		r loadResult
	}{{"yaml", ry}, {"json", rj}} {
		if r.r.panic != "" {
			return fail("C10/panic/"+panicSig(r.r.stack), fmt.Sprintf("LoadAndValidate panicked on the %s rendering: %s\n%s", r.n, r.r.panic, short(r.r.stack, 1500)))
		}
	}
	if (ry.err == nil) != (rj.err == nil) {
		return fail("C10/yaml-json/"+classOf(c), fmt.Sprintf("the same document loads differently: yaml error=%v, json error=%v", ry.err, rj.err))
	}
	var want interface{}
	json.Unmarshal(c.Expect, &want)
	wantReject := false
	if s, ok := want.(string); ok && s == "reject" {
		wantReject = true
	}
	if ry.err != nil {
		if wantReject {
			return res
		}
		return fail("C10/rejected-valid/"+c.Stratum, fmt.Sprintf("a document of the documented grammar was rejected: %s", short(ry.err.Error(), 600)))
	}
	res.Loaded = true
	py, perr := project(ry.cfg)
	if perr != "" {
		return fail("C10/mismatch/projection", perr)
	}
	pj, perr := project(rj.cfg)
	if perr != "" {
		return fail("C10/mismatch/projection", perr)
	}
	if wantReject {
		if strings.HasPrefix(c.Fault, "v0/") { // a single-fault mutation of a legacy (no configVersion) document
			return fail("C10/v0-accepted/"+strings.TrimPrefix(c.Fault, "v0/"), fmt.Sprintf("expected rejection of a legacy document (%s), but it was loaded as %s", c.Why, short(js(py), 700)))
		}
		return fail("C10/accepted/"+classOf(c), fmt.Sprintf("expected rejection (%s), but the document was loaded as %s", c.Why, short(js(py), 700)))
	}
	if dp, d := diff("", norm(py), norm(pj)); dp != "" {
		return fail("C10/yaml-json"+idxRe.ReplaceAllString(dp, ""), fmt.Sprintf("YAML and JSON renderings load differently at %s: %s (want=yaml, got=json)", dp, d))
	}
	got := norm(py)
	if dp, d := diff("", want, got); dp != "" {
		p := idxRe.ReplaceAllString(dp, "")
		if strings.HasSuffix(p, ".include") && sameSet(lookup(want, dp), lookup(got, dp)) {
			return fail("DIV/include-order", fmt.Sprintf("snapshot names at %s are the expected set in another order / multiplicity: %s", dp, d))
		}
		if _, versioned := doc["configVersion"]; !versioned {
			// legacy format: its own signature; "/default" when the option is not declared in the document
			return fail("C10/v0-mismatch"+p+legacyDefaultSuffix(doc, dp), fmt.Sprintf("effective configuration of a legacy (no configVersion) document differs from the reference at %s: %s", dp, d))
		}
		return fail("C10/mismatch"+p, fmt.Sprintf("effective configuration differs from the reference at %s: %s", dp, d))
	}
	return res
}

// legacyDefaultSuffix returns "/default" when the differing field of a legacy binding (path like
// ".kubernetes[0].events" or ".schedules[1].allowFailure") is an option the document does not declare.
func legacyDefaultSuffix(doc map[string]interface{}, path string) string {
	m := regexp.MustCompile(`^\.(kubernetes|schedules)\[(\d+)\]\.([A-Za-z]+)`).FindStringSubmatch(path)
	if m == nil {
		return ""
	}
	sect := map[string]string{"kubernetes": "onKubernetesEvent", "schedules": "schedule"}[m[1]]
	key, ok := map[string]string{"events": "event", "name": "name", "allowFailure": "allowFailure", "jqFilter": "jqFilter",
		"nameSelector": "objectName", "labelSelector": "selector", "namespace": "namespaceSelector"}[m[3]]
	if !ok {
		return "/default" // queue, sync, keep, group, include, apiVersion: the legacy format cannot declare them
	}
	var i int
	fmt.Sscanf(m[2], "%d", &i)
	items, _ := doc[sect].([]interface{})
	if i >= len(items) {
		return ""
	}
	b, _ := items[i].(map[string]interface{})
	if _, declared := b[key]; declared {
		return ""
	}
	return "/default"
}

func classOf(c Case) string {
	if c.Fault != "none" {
		return c.Fault
	}
	return c.Why
}

func fatal(f string, a ...interface{}) {
	fmt.Fprintf(os.Stderr, "HARNESS-ERROR "+f+"\n", a...)
	os.Exit(4)
}

func readCases(path string) []Case {
	f, err := os.Open(path)
	if err != nil {
		fatal("%v", err)
	}
	defer f.Close()
	var out []Case
	sc := bufio.NewScanner(f)
	sc.Buffer(make([]byte, 1<<20), 1<<26)
	for sc.Scan() {
		if len(strings.TrimSpace(sc.Text())) == 0 {
			continue
		}
		var c Case
		if err := json.Unmarshal(sc.Bytes(), &c); err != nil {
			fatal("bad case line: %v", err)
		}
		out = append(out, c)
	}
	return out
}

func main() {
	if len(os.Args) < 2 {
		fatal("usage: hookconfig replay|fuzz ...")
	}
	mode := os.Args[1]
	fs := flag.NewFlagSet(mode, flag.ExitOnError)
	in := fs.String("in", "", "cases (JSONL)")
	out := fs.String("out", "", "results (JSONL)")
	n := fs.Int("n", 2000, "fuzz: number of corrupted inputs")
	fs.Parse(os.Args[2:])
	var seed int64 = 1
	fmt.Sscan(os.Getenv("VERIF_SEED"), &seed)
	cases := readCases(*in)
	hangFile = *out + ".hang"

	total := len(cases)
	if mode == "fuzz" {
		total = (*n + fuzzBatch - 1) / fuzzBatch
	}
	if !supervise.IsChild() {
		os.Remove(hangFile)
		err := supervise.Run(total, *out, 200*time.Second, func(idx int, why string) interface{} {
			r := Result{Case: idx, OK: false, Sig: "C10/crash", Detail: why}
			if strings.Contains(why, "HANG case=") {
				r.Sig = "C10/hang"
				if i := strings.Index(why, "HANG case="); i >= 0 {
					r.Detail = short(why[i:], 1200)
				}
				if in := hangInput(idx); in != "" {
					r.Input = in
					if raw, err := base64.StdEncoding.DecodeString(in); err == nil {
						r.YAML = string(raw)
					}
				}
			}
			if strings.Contains(why, "HARNESS-ERROR") {
				r.Sig = "HARNESS"
			}
			return r
		})
		if err != nil {
			fatal("%v", err)
		}
		return
	}
	f, err := os.OpenFile(*out, os.O_APPEND|os.O_WRONLY|os.O_CREATE, 0o644)
	if err != nil {
		fatal("%v", err)
	}
	w := bufio.NewWriter(f)
	emit := func(r Result) {
		if r.OK { // keep passing lines short
			r.YAML, r.JSON = "", ""
		}
		b, _ := json.Marshal(r)
		w.Write(append(b, '\n'))
		w.Flush()
	}
	skip := supervise.Skip()
	switch mode {
	case "replay":
		for i := skip; i < len(cases); i++ {
			emit(replayCase(i, cases[i], seed))
		}
	case "fuzz":
		for b := skip; b < total; b++ {
			emit(fuzzBatchRun(b, cases, seed, *n))
		}
	default:
		fatal("unknown mode %s", mode)
	}
	f.Close()
}
