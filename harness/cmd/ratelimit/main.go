//go:build verif

// Command ratelimit checks property C18 (the execution rate limit from `settings` is respected) on a real
// ShellOperator: fake cluster, generated hooks (the hookbin helper in plan mode, exiting immediately), queue
// workers running freely.
//
//	ratelimit run -in scenarios.jsonl -out results.jsonl -trace trace.ndjson -hookbin path [-par 4]
//	    runs every scenario in its own child process (`ratelimit one`), -par at a time; a scenario whose oracle
//	    fails is executed a second time on its own and the failure is reported only when it shows up again
//	ratelimit one -scenario file -out file -hookbin path
//
// A scenario comes from a TLC behaviour of spec/RateLimit: hook settings (interval in ticks, burst), queue topology,
// arrivals (tick, hook, queue, kube event or schedule tick) and the outcomes of the runs (failed runs are retried).
// What is observed: the start timestamp every hook process writes itself (ground truth, later than the moment
// RateLimitWait returned), and - in process, for diagnosis and to tell spawn lag from throttling - the moment the
// handler updates its first metric right after RateLimitWait, the q.get / q.handled hook points of the queue worker.
package main

import (
	"bufio"
	"context"
	"encoding/json"
	"flag"
	"fmt"
	"math"
	"os"
	"os/exec"
	"path/filepath"
	"sort"
	"strings"
	"sync"
	"time"

	"github.com/flant/shell-operator/pkg/metric"
	"github.com/flant/shell-operator/pkg/task/queue"
	"github.com/flant/shell-operator/pkg/verifhook"

	"verifharness/internal/opfix"
)

type HookSpec struct {
	Name     string   `json:"name"`
	ITicks   int      `json:"i_ticks"` // 0 = no settings
	Burst    int      `json:"burst"`
	Queues   []string `json:"queues"`
	Duration string   `json:"duration"` // how executionMinInterval is written in the config ("100ms", "0.1s", ...)
}

type Arrival struct {
	Tick  int    `json:"tick"`
	Hook  string `json:"hook"`
	Queue string `json:"queue"`
	Src   string `json:"src"` // kube | sched
}

type Scenario struct {
	ID          int               `json:"id"`
	Name        string            `json:"name"`
	TickMs      int               `json:"tick_ms"`
	TraceTickMs int               `json:"trace_tick_ms"`
	SlackMs     int               `json:"slack_ms"`
	Horizon     int               `json:"horizon"`
	DrainMs     int               `json:"drain_ms"`
	Hooks       []HookSpec        `json:"hooks"`
	Arrivals    []Arrival         `json:"arrivals"`
	Plans       map[string][]bool `json:"plans"`
	ControlN    int               `json:"control_n"` // alternating burst of 2*ControlN events for the two hooks without settings
}

type Failure struct {
	Sig    string                 `json:"sig"`
	Key    string                 `json:"key"` // hook + oracle: what has to fail again in the confirmation run
	Detail string                 `json:"detail"`
	Data   map[string]interface{} `json:"data,omitempty"`
}

type HookStat struct {
	Hook      string  `json:"hook"`
	IMs       int     `json:"i_ms"`
	B         int     `json:"b"`
	Starts    int     `json:"starts"`
	MaxRatio  float64 `json:"max_fill"`   // max over windows of count / bound
	Tightest  string  `json:"tightest"`   // the window that came closest to the bound
	LagP50Ms  float64 `json:"lag_p50_ms"` // process start minus in-process after-wait stamp
	LagMaxMs  float64 `json:"lag_max_ms"`
	Matched   int     `json:"matched"`
	ProbeMs   []int   `json:"probe_ms,omitempty"` // direct RateLimitWait returns relative to the first
	Unlimited bool    `json:"unlimited,omitempty"`
}

type Result struct {
	Case      int                      `json:"case"`
	Name      string                   `json:"name"`
	OK        bool                     `json:"ok"`
	Infra     string                   `json:"infra,omitempty"` // the scenario could not be run
	Failures  []Failure                `json:"failures"`
	Notes     []string                 `json:"notes"`
	Hooks     []HookStat               `json:"hooks"`
	Execs     int                      `json:"execs"`
	Arrivals  int                      `json:"arrivals"`
	Control   map[string]interface{}   `json:"control,omitempty"`
	Trace     []map[string]interface{} `json:"trace"`
	WallMs    int                      `json:"wall_ms"`
	Confirmed bool                     `json:"confirmed,omitempty"`
	FirstRun  []Failure                `json:"first_run,omitempty"`
}

// ---------------------------------------------------------------------------------------------------------
// in-process observation
// ---------------------------------------------------------------------------------------------------------

type waitStamp struct {
	hook, queue string
	t           int64 // wall clock ns right after RateLimitWait (first metric of taskHandleHookRun)
	sinceGet    int64 // ns since the worker of that queue took the task (q.get): time spent in RateLimitWait
}

type recorder struct {
	mu      sync.Mutex
	get     map[string]int64
	stamps  []waitStamp
	backoff time.Duration
}

func (r *recorder) hook(point string, args ...interface{}) {
	if len(args) == 0 {
		return
	}
	q, ok := args[0].(*queue.TaskQueue)
	if !ok {
		return
	}
	switch point {
	case "q.top":
		// on the worker goroutine: retries after a constant small delay instead of 5s * 2^n
		q.ExponentialBackoffFn = func(int) time.Duration { return r.backoff }
	case "q.get":
		r.mu.Lock()
		r.get[q.Name] = time.Now().UnixNano()
		r.mu.Unlock()
	}
}

type recStorage struct {
	metric.Storage
	r *recorder
}

func (s *recStorage) CounterAdd(name string, value float64, labels map[string]string) {
	if strings.HasSuffix(name, "task_wait_in_queue_seconds_total") {
		now := time.Now().UnixNano()
		s.r.mu.Lock()
		since := int64(-1)
		if g, ok := s.r.get[labels["queue"]]; ok {
			since = now - g
		}
		s.r.stamps = append(s.r.stamps, waitStamp{hook: labels["hook"], queue: labels["queue"], t: now, sinceGet: since})
		s.r.mu.Unlock()
	}
	s.Storage.CounterAdd(name, value, labels)
}

// ---------------------------------------------------------------------------------------------------------
// oracle
// ---------------------------------------------------------------------------------------------------------

// windowCheck evaluates count([t_i, t_j]) <= B + ceil((t_j - t_i + slack) / I) over all pairs of a sorted
// sequence. Returns the first violating window (i, j) or (-1, -1), and the highest count/bound ratio.
func windowCheck(ts []int64, iNs, slackNs int64, b int) (int, int, float64, string) {
	vi, vj := -1, -1
	best := 0.0
	tight := ""
	for i := 0; i < len(ts); i++ {
		for j := i; j < len(ts); j++ {
			n := j - i + 1
			T := ts[j] - ts[i]
			bound := b + int((T+slackNs+iNs-1)/iNs)
			r := float64(n) / float64(bound)
			if r > best {
				best = r
				tight = fmt.Sprintf("%d starts in %.1f ms (bound %d)", n, float64(T)/1e6, bound)
			}
			if n > bound && vi < 0 {
				vi, vj = i, j
			}
		}
	}
	return vi, vj, best, tight
}

func ms(ns int64) float64 { return math.Round(float64(ns)/1e4) / 100 }

func quantile(xs []int64, q float64) int64 {
	if len(xs) == 0 {
		return 0
	}
	s := append([]int64(nil), xs...)
	sort.Slice(s, func(i, j int) bool { return s[i] < s[j] })
	k := int(q * float64(len(s)))
	if k >= len(s) {
		k = len(s) - 1
	}
	return s[k]
}

func median(xs []int64) int64 { return quantile(xs, 0.5) }

type execRec struct {
	Hook  string `json:"hook"`
	Start int64  `json:"start"`
	ID    string `json:"id"`
	End   int64
}

func readExecs(ctl string) []execRec {
	ents, _ := os.ReadDir(filepath.Join(ctl, "exec"))
	byID := map[string]*execRec{}
	var out []*execRec
	for _, e := range ents {
		if !strings.HasSuffix(e.Name(), ".start") {
			continue
		}
		b, err := os.ReadFile(filepath.Join(ctl, "exec", e.Name()))
		if err != nil {
			continue
		}
		var r execRec
		if json.Unmarshal(b, &r) != nil || r.Start == 0 {
			continue
		}
		rr := r
		byID[r.ID] = &rr
		out = append(out, &rr)
	}
	for _, e := range ents {
		if !strings.HasSuffix(e.Name(), ".end") {
			continue
		}
		b, err := os.ReadFile(filepath.Join(ctl, "exec", e.Name()))
		if err != nil {
			continue
		}
		var r struct {
			ID  string `json:"id"`
			End int64  `json:"end"`
		}
		if json.Unmarshal(b, &r) == nil {
			if x := byID[r.ID]; x != nil {
				x.End = r.End
			}
		}
	}
	res := make([]execRec, 0, len(out))
	for _, x := range out {
		res = append(res, *x)
	}
	sort.Slice(res, func(i, j int) bool { return res[i].Start < res[j].Start })
	return res
}

// effective pairs every process start with the latest not yet used in-process after-wait stamp of the same hook
// that precedes it; a start without a stamp keeps its own time.
func effective(starts []int64, stamps []int64) ([]int64, []int64, int) {
	used := make([]bool, len(stamps))
	eff := make([]int64, 0, len(starts))
	var lags []int64
	matched := 0
	for _, s := range starts {
		k := -1
		for i, m := range stamps {
			if m <= s && !used[i] {
				k = i
			}
		}
		if k >= 0 {
			used[k] = true
			eff = append(eff, stamps[k])
			lags = append(lags, s-stamps[k])
			matched++
		} else {
			eff = append(eff, s)
		}
	}
	sort.Slice(eff, func(i, j int) bool { return eff[i] < eff[j] })
	return eff, lags, matched
}

// ---------------------------------------------------------------------------------------------------------
// one scenario
// ---------------------------------------------------------------------------------------------------------

const (
	ctlA, ctlB    = "c0a", "c0b"
	ctlQueue      = "q0"
	gapBoundMs    = 50 // median gap between two back-to-back runs of the hooks without settings
	inWaitBoundMs = 25 // median in-process time those runs spend between q.get and the return of RateLimitWait
)

func crontabFor(i int) string { return fmt.Sprintf("%d 0 29 2 *", i) }

func runScenario(sc Scenario, hookbin string) (res Result) {
	t00 := time.Now()
	res = Result{Case: sc.ID, Name: sc.Name, OK: true, Failures: []Failure{}, Notes: []string{}, Trace: []map[string]interface{}{}}
	defer func() { res.WallMs = int(time.Since(t00) / time.Millisecond) }()
	tick := time.Duration(sc.TickMs) * time.Millisecond
	slack := int64(sc.SlackMs) * 1e6
	opfix.Knobs(2 * time.Millisecond)

	// ----- hooks -----
	cron := map[string]string{} // hook/queue -> crontab
	var cfgs []opfix.HookCfg
	specs := map[string]HookSpec{}
	queues := map[string]bool{"main": true, ctlQueue: true}
	nct := 0
	for _, h := range sc.Hooks {
		specs[h.Name] = h
		c := opfix.HookCfg{Name: h.Name}
		if h.ITicks > 0 {
			d := h.Duration
			if d == "" {
				d = fmt.Sprintf("%dms", h.ITicks*sc.TickMs)
			}
			c.Extra = fmt.Sprintf("settings:\n  executionMinInterval: %s\n  executionBurst: %d\n", d, h.Burst)
		}
		for _, q := range h.Queues {
			queues[q] = true
			c.Kube = append(c.Kube, opfix.KubeB{Name: "k_" + q, Queue: q, Sync: true})
			nct++
			ct := crontabFor(nct)
			cron[h.Name+"/"+q] = ct
			c.Sched = append(c.Sched, opfix.SchedB{Name: "s_" + q, Crontab: ct, Queue: q})
		}
		cfgs = append(cfgs, c)
	}
	for _, n := range []string{ctlA, ctlB} {
		cfgs = append(cfgs, opfix.HookCfg{Name: n, Kube: []opfix.KubeB{{Name: "k_" + ctlQueue, Queue: ctlQueue, Sync: false}}})
	}
	f, err := opfix.New(cfgs, hookbin, "plan", false)
	defer func() {
		// the process exits right after the scenario: no orderly shutdown, only the scratch directory goes
		if f != nil {
			os.RemoveAll(f.Root)
		}
	}()
	if err != nil {
		res.OK, res.Infra = false, "assemble: "+err.Error()
		return
	}
	for h, plan := range sc.Plans {
		var outs []map[string]int
		for _, ok := range plan {
			e := 0
			if !ok {
				e = 1
			}
			outs = append(outs, map[string]int{"exit": e})
		}
		outs = append(outs, map[string]int{"exit": 0})
		b, _ := json.Marshal(outs)
		os.WriteFile(filepath.Join(f.CtlDir, "plan", h+".json"), b, 0o644)
	}
	rec := &recorder{get: map[string]int64{}, backoff: 2 * time.Millisecond}
	f.Op.MetricStorage = &recStorage{Storage: f.Op.MetricStorage, r: rec}
	verifhook.Set(rec.hook)
	base := time.Now().UnixNano()
	if err := f.Bootstrap(false); err != nil {
		res.OK, res.Infra = false, "bootstrap: "+err.Error()
		return
	}
	idle := func(until time.Time) bool {
		calm := 0
		for time.Now().Before(until) {
			busy := false
			for q := range queues {
				if n := f.QueueLen(q); n > 0 {
					busy = true
				}
			}
			if busy {
				calm = 0
			} else {
				calm++
				if calm >= 3 {
					return true
				}
			}
			time.Sleep(2 * time.Millisecond)
		}
		return false
	}
	if !idle(time.Now().Add(20 * time.Second)) {
		res.OK, res.Infra = false, "the operator did not finish its startup tasks within 20s"
		return
	}
	// let every bucket refill: the arrivals then meet a full bucket
	refill := time.Duration(0)
	for _, h := range sc.Hooks {
		if d := time.Duration(h.Burst*h.ITicks) * tick; d > refill {
			refill = d
		}
	}
	time.Sleep(refill + 30*time.Millisecond)

	// ----- arrivals -----
	t0 := time.Now()
	inject := func(a Arrival) {
		before := f.QueueLen(a.Queue)
		if a.Src == "sched" {
			if n, err := f.Tick(cron[a.Hook+"/"+a.Queue]); err != nil || n == 0 {
				res.Notes = append(res.Notes, fmt.Sprintf("schedule tick for %s/%s not delivered (%v)", a.Hook, a.Queue, err))
			}
		} else if err := f.KubeEvent(a.Hook, "k_"+a.Queue); err != nil {
			res.Notes = append(res.Notes, "kube event: "+err.Error())
		}
		// give the event a moment to reach the queue so that the order of a burst is kept
		for i := 0; i < 10 && f.QueueLen(a.Queue) == before; i++ {
			time.Sleep(200 * time.Microsecond)
		}
		res.Arrivals++
	}
	arr := append([]Arrival(nil), sc.Arrivals...)
	sort.SliceStable(arr, func(i, j int) bool { return arr[i].Tick < arr[j].Tick })
	ctlDone := sc.ControlN == 0
	k := 0
	for t := 0; t <= sc.Horizon; t++ {
		if d := time.Until(t0.Add(time.Duration(t) * tick)); d > 0 {
			time.Sleep(d)
		}
		if t == 1 && !ctlDone {
			for i := 0; i < sc.ControlN; i++ {
				inject(Arrival{Hook: ctlA, Queue: ctlQueue})
				inject(Arrival{Hook: ctlB, Queue: ctlQueue})
			}
			res.Arrivals -= 2 * sc.ControlN
			ctlDone = true
		}
		for k < len(arr) && arr[k].Tick <= t {
			inject(arr[k])
			k++
		}
	}
	drained := idle(t0.Add(time.Duration(sc.Horizon)*tick + time.Duration(sc.DrainMs)*time.Millisecond))
	if !drained {
		res.Notes = append(res.Notes, "queues not empty at the end of the observation (executions so far are evaluated)")
	}

	// ----- direct probes of the limiters the hooks really carry (after the queued work) -----
	type probe struct {
		hook    string
		rounds  [][]int64 // limited hooks: return times of B + 2 consecutive RateLimitWait calls, two rounds
		refused bool      // RateLimitWait gave up: the wait would have exceeded 8 s
		min     time.Duration
	}
	var pmu sync.Mutex
	probes := map[string]*probe{}
	var wg sync.WaitGroup
	all := append([]HookSpec(nil), sc.Hooks...)
	all = append(all, HookSpec{Name: ctlA}, HookSpec{Name: ctlB})
	for _, h := range all {
		hk := f.Op.HookManager.GetHook(h.Name)
		if hk == nil {
			continue
		}
		wg.Add(1)
		go func(h HookSpec) {
			defer wg.Done()
			p := &probe{hook: h.Name}
			ctx, cancel := context.WithTimeout(context.Background(), 8*time.Second)
			defer cancel()
			if h.ITicks == 0 {
				// 3 batches of 100 calls, the fastest batch counts; a call that would have to wait longer than the
				// batch may take makes the batch count with its full allowance
				p.min = time.Hour
				for b := 0; b < 3; b++ {
					bctx, bcancel := context.WithTimeout(context.Background(), 2*time.Second)
					s := time.Now()
					d := time.Duration(0)
					for i := 0; i < 100; i++ {
						if hk.RateLimitWait(bctx) != nil {
							d = 2 * time.Second
							break
						}
					}
					bcancel()
					if d == 0 {
						d = time.Since(s)
					}
					if d < p.min {
						p.min = d
					}
				}
			} else if drained {
				for round := 0; round < 2 && !p.refused; round++ {
					time.Sleep(time.Duration(h.Burst*h.ITicks)*tick + 30*time.Millisecond) // a full bucket
					var ts []int64
					for i := 0; i < h.Burst+2; i++ {
						if hk.RateLimitWait(ctx) != nil {
							p.refused = true
							break
						}
						ts = append(ts, time.Now().UnixNano())
					}
					if len(ts) == h.Burst+2 {
						p.rounds = append(p.rounds, ts)
					}
				}
			}
			pmu.Lock()
			probes[h.Name] = p
			pmu.Unlock()
		}(h)
	}
	wg.Wait()

	// ----- evaluation -----
	execs := readExecs(f.CtlDir)
	res.Execs = len(execs)
	byHook := map[string][]int64{}
	for _, e := range execs {
		byHook[e.Hook] = append(byHook[e.Hook], e.Start)
	}
	rec.mu.Lock()
	stamps := append([]waitStamp(nil), rec.stamps...)
	rec.mu.Unlock()
	stampsBy := map[string][]int64{}
	for _, s := range stamps {
		stampsBy[s.hook] = append(stampsBy[s.hook], s.t)
	}
	fail := func(sig, key, detail string, data map[string]interface{}) {
		res.OK = false
		res.Failures = append(res.Failures, Failure{Sig: sig, Key: key, Detail: detail, Data: data})
	}
	rel := func(ts []int64) []float64 {
		out := make([]float64, len(ts))
		for i, t := range ts {
			out[i] = ms(t - t0.UnixNano())
		}
		return out
	}
	for _, h := range sc.Hooks {
		starts := byHook[h.Name]
		st := HookStat{Hook: h.Name, IMs: h.ITicks * sc.TickMs, B: h.Burst, Starts: len(starts), Unlimited: h.ITicks == 0}
		eff, lags, matched := effective(starts, stampsBy[h.Name])
		st.Matched = matched
		if len(lags) > 0 {
			st.LagP50Ms = ms(median(lags))
			mx := int64(0)
			for _, l := range lags {
				if l > mx {
					mx = l
				}
			}
			st.LagMaxMs = ms(mx)
		}
		p := probes[h.Name]
		if h.ITicks == 0 {
			if p != nil && p.min > 100*time.Millisecond && p.min < time.Hour {
				fail("C18/unthrottled/limiter-blocks/"+topoOf(sc), h.Name+"/probe",
					fmt.Sprintf("hook %s has no settings, but 100 direct RateLimitWait calls on its limiter take %s or more (fastest of 3 batches)", h.Name, p.min),
					map[string]interface{}{"hook": h.Name, "batch_ms": ms(int64(p.min))})
			}
			res.Hooks = append(res.Hooks, st)
			continue
		}
		iNs := int64(h.ITicks*sc.TickMs) * 1e6
		vi, vj, ratio, tight := windowCheck(starts, iNs, slack, h.Burst)
		st.MaxRatio, st.Tightest = math.Round(ratio*100)/100, tight
		if vi >= 0 {
			ei, _, _, _ := windowCheck(eff, iNs, slack, h.Burst)
			n := vj - vi + 1
			T := starts[vj] - starts[vi]
			bound := h.Burst + int((T+slack+iNs-1)/iNs)
			detail := fmt.Sprintf("hook %s (executionMinInterval %dms, executionBurst %d, queues %v): %d executions started within %.1f ms; the limit allows %d (B + ceil((T + %dms slack)/I)); process start times relative to the first arrival: %v",
				h.Name, h.ITicks*sc.TickMs, h.Burst, h.Queues, n, ms(T), bound, sc.SlackMs, rel(starts[vi:vj+1]))
			if ei >= 0 {
				fail("C18/window/"+classify(sc, h), h.Name+"/window", detail,
					map[string]interface{}{"hook": h.Name, "i_ms": h.ITicks * sc.TickMs, "burst": h.Burst, "window_ms": ms(T), "count": n, "bound": bound,
						"starts_ms": rel(starts), "after_wait_ms": rel(eff)})
			} else {
				res.Notes = append(res.Notes, "NOT-REPRODUCED spawn lag: "+detail+fmt.Sprintf("; the in-process stamps taken right after RateLimitWait satisfy the bound (max lag %.1f ms)", st.LagMaxMs))
			}
		}
		if p != nil && p.refused {
			res.Notes = append(res.Notes, fmt.Sprintf("DIVERGENCE C18/conformance/stricter-than-configured: hook %s (executionMinInterval %dms, executionBurst %d): %d consecutive RateLimitWait calls cannot be served within 8 s", h.Name, h.ITicks*sc.TickMs, h.Burst, h.Burst+2))
		}
		if p != nil && len(p.rounds) == 2 {
			// every finding has to show in both rounds (a stall of the prober is not a property of the limiter)
			viol, noBurst, loose, strict := 0, 0, 0, 0
			var worst []int64
			for _, ts := range p.rounds {
				if pi, _, _, _ := windowCheck(ts, iNs, slack, h.Burst); pi >= 0 {
					viol++
					worst = ts
				}
				if ts[h.Burst-1]-ts[0] >= iNs-slack && h.Burst > 1 {
					noBurst++
				}
				if ts[h.Burst]-ts[0] < iNs-slack {
					loose++
				}
				if ts[h.Burst+1]-ts[0] > 2*iNs+int64(time.Second) {
					strict++
				}
			}
			for _, t := range p.rounds[0] {
				st.ProbeMs = append(st.ProbeMs, int((t-p.rounds[0][0])/1e6))
			}
			if viol == 2 {
				var rel []int
				for _, t := range worst {
					rel = append(rel, int((t-worst[0])/1e6))
				}
				fail("C18/limiter-probe/"+fmt.Sprintf("B%d", h.Burst), h.Name+"/probe",
					fmt.Sprintf("hook %s (executionMinInterval %dms, executionBurst %d): %d consecutive RateLimitWait calls on the hook's limiter (full bucket) return at %v ms: more than B + ceil((T + %dms)/I) within a window (seen in two rounds)",
						h.Name, h.ITicks*sc.TickMs, h.Burst, h.Burst+2, rel, sc.SlackMs),
					map[string]interface{}{"hook": h.Name, "probe_ms": rel})
			}
			// conformance with the documented token bucket (not part of the verdict)
			if noBurst == 2 {
				res.Notes = append(res.Notes, fmt.Sprintf("DIVERGENCE C18/conformance/burst-not-granted: hook %s with a full bucket: the first %d RateLimitWait calls take %d ms (executionBurst %d should let them pass at once)", h.Name, h.Burst, st.ProbeMs[h.Burst-1], h.Burst))
			}
			if loose == 2 && viol < 2 {
				res.Notes = append(res.Notes, fmt.Sprintf("DIVERGENCE C18/conformance/looser-than-bucket: hook %s: call %d returns %d ms after the first (a bucket of %d tokens refilled every %dms gives >= %dms); still within B + ceil(T/I)", h.Name, h.Burst+1, st.ProbeMs[h.Burst], h.Burst, h.ITicks*sc.TickMs, h.ITicks*sc.TickMs))
			}
			if strict == 2 {
				res.Notes = append(res.Notes, fmt.Sprintf("DIVERGENCE C18/conformance/stricter-than-configured: hook %s: call %d returns %d ms after the first (configured interval %dms)", h.Name, h.Burst+2, st.ProbeMs[h.Burst+1], h.ITicks*sc.TickMs))
			}
		}
		res.Hooks = append(res.Hooks, st)
		// quantised trace for TLC (RateLimitTrace.tla)
		tt := int64(sc.TraceTickMs) * 1e6
		res.Trace = append(res.Trace, map[string]interface{}{"ev": "hook", "run": sc.ID, "hook": h.Name, "I": h.ITicks * sc.TickMs / sc.TraceTickMs,
			"B": h.Burst, "S": 1 + (sc.SlackMs+sc.TraceTickMs-1)/sc.TraceTickMs, "t": 0})
		for _, s := range starts {
			res.Trace = append(res.Trace, map[string]interface{}{"ev": "start", "run": sc.ID, "hook": h.Name, "I": 0, "B": 0, "S": 0, "t": (s - base) / tt})
		}
	}
	// ----- hooks without settings: the control pair runs back to back -----
	if sc.ControlN > 0 {
		var ce []execRec
		for _, e := range execs {
			if e.Hook == ctlA || e.Hook == ctlB {
				ce = append(ce, e)
			}
		}
		var gaps []int64
		for i := 1; i < len(ce); i++ {
			if ce[i-1].End > 0 && ce[i].Start >= ce[i-1].End {
				gaps = append(gaps, ce[i].Start-ce[i-1].End)
			}
		}
		var inWait []int64
		for _, s := range stamps {
			if (s.hook == ctlA || s.hook == ctlB) && s.sinceGet >= 0 {
				inWait = append(inWait, s.sinceGet)
			}
		}
		g75, w75 := quantile(gaps, 0.75), quantile(inWait, 0.75)
		res.Control = map[string]interface{}{"execs": len(ce), "gaps": len(gaps), "gap_p50_ms": ms(median(gaps)), "gap_p75_ms": ms(g75),
			"in_wait_p50_ms": ms(median(inWait)), "in_wait_p75_ms": ms(w75), "in_wait_n": len(inWait)}
		for _, n := range []string{ctlA, ctlB} {
			if p := probes[n]; p != nil && p.min > 100*time.Millisecond && p.min < time.Hour {
				fail("C18/unthrottled/limiter-blocks/control", n+"/probe",
					fmt.Sprintf("hook %s has no settings, but 100 direct RateLimitWait calls on its limiter take %s or more (fastest of 3 batches)", n, p.min),
					map[string]interface{}{"hook": n, "batch_ms": ms(int64(p.min))})
			}
		}
		if len(gaps) >= 6 {
			// third quartile: with one limiter per hook every second run of the alternating pair waits
			if g75 > gapBoundMs*1e6 {
				detail := fmt.Sprintf("hooks %s/%s have no settings and %d tasks queued back to back in queue %s, but a quarter of the pauses between the end of one run and the start of the next are longer than %.1f ms (%d runs; generous bound %d ms; a few ms are needed to start a process)",
					ctlA, ctlB, 2*sc.ControlN, ctlQueue, ms(g75), len(ce), gapBoundMs)
				if len(inWait) < 6 || w75 > inWaitBoundMs*1e6 {
					fail("C18/unthrottled/delayed", "control/gap", detail+fmt.Sprintf("; in process: a quarter of the runs spend more than %.1f ms between q.get and the return of RateLimitWait", ms(w75)),
						map[string]interface{}{"gap_p75_ms": ms(g75), "in_wait_p75_ms": ms(w75), "execs": len(ce)})
				} else {
					res.Notes = append(res.Notes, "NOT-REPRODUCED spawn lag: "+detail+fmt.Sprintf("; in process three quarters of the runs leave RateLimitWait within %.2f ms", ms(w75)))
				}
			}
		} else {
			res.Notes = append(res.Notes, fmt.Sprintf("control pair: only %d back-to-back runs observed, not evaluated", len(ce)))
		}
	}
	return
}

func topoOf(sc Scenario) string {
	if i := strings.Index(sc.Name, "/"); i > 0 {
		return sc.Name[:i]
	}
	return sc.Name
}

// classify names the input class of a window violation: topology and whether retries were involved.
func classify(sc Scenario, h HookSpec) string {
	retry := "first-runs"
	for _, ok := range sc.Plans[h.Name] {
		if !ok {
			retry = "with-retries"
			break
		}
	}
	q := "one-queue"
	if len(h.Queues) > 1 {
		q = "several-queues"
	}
	return fmt.Sprintf("%s/%s/%s", topoOf(sc), q, retry)
}

// ---------------------------------------------------------------------------------------------------------
// driver
// ---------------------------------------------------------------------------------------------------------

func child(self, hookbin string, sc Scenario, dir string) Result {
	b, _ := json.Marshal(sc)
	in := filepath.Join(dir, fmt.Sprintf("sc%d.json", sc.ID))
	out := filepath.Join(dir, fmt.Sprintf("res%d.%d.json", sc.ID, time.Now().UnixNano()))
	os.WriteFile(in, b, 0o644)
	ctx, cancel := context.WithTimeout(context.Background(), 90*time.Second)
	defer cancel()
	cmd := exec.CommandContext(ctx, self, "one", "-scenario", in, "-out", out, "-hookbin", hookbin)
	var stderr strings.Builder
	cmd.Stderr = &stderr
	err := cmd.Run()
	var r Result
	rb, rerr := os.ReadFile(out)
	if rerr != nil || json.Unmarshal(rb, &r) != nil {
		msg := stderr.String()
		if len(msg) > 3000 {
			msg = msg[len(msg)-3000:]
		}
		return Result{Case: sc.ID, Name: sc.Name, OK: false, Infra: fmt.Sprintf("child failed (%v): %s", err, msg), Failures: []Failure{}, Notes: []string{}}
	}
	os.Remove(out)
	return r
}

func main() {
	os.Setenv("QUEUE_ACTIONS_METRICS", "no")
	if len(os.Args) < 2 {
		fmt.Fprintln(os.Stderr, "usage: ratelimit run|one ...")
		os.Exit(2)
	}
	fs := flag.NewFlagSet("ratelimit", flag.ExitOnError)
	in := fs.String("in", "", "")
	out := fs.String("out", "", "")
	trace := fs.String("trace", "", "")
	hookbin := fs.String("hookbin", "", "")
	scen := fs.String("scenario", "", "")
	par := fs.Int("par", 4, "")
	fs.Parse(os.Args[2:])
	switch os.Args[1] {
	case "one":
		b, err := os.ReadFile(*scen)
		var sc Scenario
		if err != nil || json.Unmarshal(b, &sc) != nil {
			fmt.Fprintln(os.Stderr, "cannot read scenario", err)
			os.Exit(2)
		}
		r := runScenario(sc, *hookbin)
		rb, _ := json.Marshal(r)
		tmp := *out + ".tmp"
		os.WriteFile(tmp, rb, 0o644)
		os.Rename(tmp, *out)
		os.Exit(0) // do not wait for goroutines of the operator
	case "run":
		fh, err := os.Open(*in)
		if err != nil {
			fmt.Fprintln(os.Stderr, err)
			os.Exit(2)
		}
		var scs []Scenario
		s := bufio.NewScanner(fh)
		s.Buffer(make([]byte, 1<<20), 1<<26)
		for s.Scan() {
			var sc Scenario
			if err := json.Unmarshal(s.Bytes(), &sc); err != nil {
				fmt.Fprintln(os.Stderr, err)
				os.Exit(2)
			}
			scs = append(scs, sc)
		}
		self, _ := os.Executable()
		dir := filepath.Dir(*out)
		results := make([]Result, len(scs))
		sem := make(chan struct{}, *par)
		var wg sync.WaitGroup
		for i := range scs {
			wg.Add(1)
			go func(i int) {
				defer wg.Done()
				sem <- struct{}{}
				results[i] = child(self, *hookbin, scs[i], dir)
				<-sem
			}(i)
		}
		wg.Wait()
		// confirmation: a failed oracle must fail again when the scenario runs on its own
		for i := range results {
			r := results[i]
			if r.Infra != "" {
				r2 := child(self, *hookbin, scs[i], dir)
				if r2.Infra == "" {
					r2.Notes = append(r2.Notes, "first attempt could not be run: "+r.Infra)
					results[i] = r2
					r = r2
				}
			}
			if len(r.Failures) == 0 {
				continue
			}
			r2 := child(self, *hookbin, scs[i], dir)
			again := map[string]bool{}
			for _, f := range r2.Failures {
				again[f.Key] = true
			}
			var keep []Failure
			for _, f := range r.Failures {
				if again[f.Key] {
					keep = append(keep, f)
				} else {
					r.Notes = append(r.Notes, "NOT-REPRODUCED in the confirmation run: "+f.Sig+": "+f.Detail)
				}
			}
			r.FirstRun = r.Failures
			r.Failures = keep
			if keep == nil {
				r.Failures = []Failure{}
			}
			r.OK = len(keep) == 0
			r.Confirmed = len(keep) > 0
			results[i] = r
		}
		of, err := os.Create(*out)
		if err != nil {
			fmt.Fprintln(os.Stderr, err)
			os.Exit(2)
		}
		var tf *os.File
		if *trace != "" {
			tf, _ = os.Create(*trace)
		}
		for _, r := range results {
			if tf != nil {
				for _, l := range r.Trace {
					b, _ := json.Marshal(l)
					tf.Write(append(b, '\n'))
				}
			}
			r.Trace = nil
			b, _ := json.Marshal(r)
			of.Write(append(b, '\n'))
		}
		of.Close()
		if tf != nil {
			tf.Close()
		}
	default:
		fmt.Fprintln(os.Stderr, "unknown command", os.Args[1])
		os.Exit(2)
	}
}
