//go:build verif

// Command discover binds spec/HookDiscovery to the real hook discovery and --config round
// (pkg/utils/file/file.go, pkg/hook/hook_manager.go Init/loadHook, pkg/hook/hook.go LoadConfig).
//
//	discover run -in cases.jsonl -out results.jsonl -scratch DIR
//
// Every line of -in is one case computed by TLC: a directory tree, the name of the hooks directory, at most
// one bad hook, and the result initialization must show (hook names in load order, files whose --config must
// have run exactly once / at most once, the hook name the error has to contain). The tree is materialised
// below DIR, every FILE of the tree (hook or not) is a generated sh script (three of four well-behaved ones also write
// a warning line to stderr, before and/or after their output) that appends its own relative path
// and its arguments to an invocation log outside the tree, then the REAL hook.Manager.Init runs on it and
// GetHookNames(), the invocation log and the error text are compared with the expectation. Nothing about the
// expected result is recomputed here.
//
// Cases run in a supervised child process so that a panic inside the code under test is a result, not a
// lost run. Parallelism comes from the orchestrator starting several processes on disjoint shards.
package main

import (
	"bufio"
	"encoding/json"
	"flag"
	"fmt"
	"hash/fnv"
	"os"
	"path/filepath"
	"reflect"
	"runtime/debug"
	"sort"
	"strings"
	"time"

	"github.com/deckhouse/deckhouse/pkg/log"

	"github.com/flant/shell-operator/pkg/app"
	"github.com/flant/shell-operator/pkg/hook"
	"github.com/flant/shell-operator/pkg/webhook/admission"
	"github.com/flant/shell-operator/pkg/webhook/conversion"

	"verifharness/internal/supervise"
)

type Entry struct {
	Path string `json:"path"`
	Kind string `json:"kind"` // dir | file
	X    string `json:"x"`    // subset of "ugo": who has the execute bit
}

type Case struct {
	ID      int      `json:"id"`
	Root    string   `json:"root"`
	Entries []Entry  `json:"entries"`
	Bad     string   `json:"bad"`
	Kind    string   `json:"kind"`
	OK      bool     `json:"ok"`
	Names   []string `json:"names"`
	Once    []string `json:"once"`
	Atmost  []string `json:"atmost"`
	Errname string   `json:"errname"`
}

type Observed struct {
	Names       []string       `json:"names"`
	Invocations []string       `json:"invocations"`
	Counts      map[string]int `json:"counts,omitempty"`
	Err         string         `json:"err"`
}

type Result struct {
	Case   int       `json:"case"`
	OK     bool      `json:"ok"`
	Sig    string    `json:"sig,omitempty"`
	Detail string    `json:"detail,omitempty"`
	Spawns int       `json:"spawns"`
	Noisy  int       `json:"noisy"` // loadable hooks of the case whose script also writes to stderr during --config
	Got    *Observed `json:"got,omitempty"`
	// RootOnly: the same tree and bad hook pass when the hooks directory is called "hooks"
	RootOnly bool `json:"root_only,omitempty"`
}

const validConfig = `{"configVersion":"v1","onStartup":1}`

const stderrWarning = "WARNING: kubectl: flag --short is deprecated (hook: still fine)"

// noiseOf decides, from the case alone (so that a replay reproduces it), whether a well-behaved script also writes
// a warning line to stderr during its run: 0 quiet, 1 before the configuration, 2 after it, 3 both. What a hook
// prints on stderr is not its configuration: the expectation (it loads) is the same for all four.
func noiseOf(c *Case, rel string) int {
	h := fnv.New32a()
	fmt.Fprintf(h, "%s#%d", rel, len(c.Entries))
	return int(h.Sum32() % 4)
}

func scriptFor(rel, logPath, behaviour string, noise int) string {
	var b strings.Builder
	b.WriteString("#!/bin/sh\n")
	// one short line per invocation, written with a single write(2) in append mode
	fmt.Fprintf(&b, "echo \"%s|$*\" >> '%s'\n", rel, logPath)
	switch behaviour {
	case "good":
		if noise&1 != 0 {
			fmt.Fprintf(&b, "echo '%s' >&2\n", stderrWarning)
		}
		fmt.Fprintf(&b, "echo '%s'\n", validConfig)
		if noise&2 != 0 {
			fmt.Fprintf(&b, "echo '%s' >&2\n", stderrWarning)
		}
	case "exit": // the run fails and prints nothing
		b.WriteString("echo 'cannot produce a config' >&2\nexit 1\n")
	case "exitcfg": // the run fails although a valid config was printed
		fmt.Fprintf(&b, "echo '%s'\nexit 3\n", validConfig)
	case "schema": // well-formed JSON, invalid configuration (wrong type)
		b.WriteString("echo '{\"configVersion\":\"v1\",\"onStartup\":\"soon\"}'\n")
	case "garbage": // not a configuration at all
		b.WriteString("echo '{{{ not: a config ]'\n")
	default:
		panic("unknown behaviour " + behaviour)
	}
	return b.String()
}

func modeOf(x string) os.FileMode {
	m := os.FileMode(0o644)
	if strings.Contains(x, "u") {
		m |= 0o100
	}
	if strings.Contains(x, "g") {
		m |= 0o010
	}
	if strings.Contains(x, "o") {
		m |= 0o001
	}
	// Without root privileges the owner cannot execute a file whose only execute bits are g/o; such a file
	// still "carries an execute bit" but its --config run would fail for a reason outside the case. Give
	// the owner the bit as well in that situation (documented in checks/discover.py).
	if x != "" && os.Geteuid() != 0 {
		m |= 0o100
	}
	return m
}

func materialise(base string, c *Case, root string) (hooksDir, logPath, tmpDir string, err error) {
	hooksDir = filepath.Join(base, root)
	logPath = filepath.Join(base, "invocations.log")
	tmpDir = filepath.Join(base, "tmp")
	if err = os.MkdirAll(hooksDir, 0o755); err != nil {
		return
	}
	if err = os.MkdirAll(tmpDir, 0o755); err != nil {
		return
	}
	if err = os.WriteFile(logPath, nil, 0o644); err != nil {
		return
	}
	for _, e := range c.Entries {
		p := filepath.Join(hooksDir, filepath.FromSlash(e.Path))
		if e.Kind == "dir" {
			if err = os.MkdirAll(p, 0o755); err != nil {
				return
			}
			continue
		}
		if err = os.MkdirAll(filepath.Dir(p), 0o755); err != nil {
			return
		}
		beh := "good"
		if c.Bad != "" && e.Path == c.Bad {
			beh = c.Kind
		}
		if err = os.WriteFile(p, []byte(scriptFor(e.Path, logPath, beh, noiseOf(c, e.Path))), 0o644); err != nil {
			return
		}
		if err = os.Chmod(p, modeOf(e.X)); err != nil {
			return
		}
	}
	return
}

// runInit runs the real hook.Manager.Init on hooksDir. The manager is constructed like the repository's own
// tests do (pkg/hook/hook_manager_test.go: newHookManager).
func runInit(hooksDir, tmpDir string) (names []string, initErr error, panicked string) {
	conversionManager := conversion.NewWebhookManager()
	conversionManager.Settings = app.ConversionWebhookSettings
	admissionManager := admission.NewWebhookManager(nil)
	admissionManager.Settings = app.ValidatingWebhookSettings
	cfg := &hook.ManagerConfig{
		WorkingDir: hooksDir,
		TempDir:    tmpDir,
		Kmgr:       nil,
		Smgr:       nil,
		Wmgr:       admissionManager,
		Cmgr:       conversionManager,
		Logger:     log.NewNop(),
	}
	hm := hook.NewHookManager(cfg)
	func() {
		defer func() {
			if r := recover(); r != nil {
				panicked = fmt.Sprintf("%v\n%s", r, debug.Stack())
			}
		}()
		initErr = hm.Init()
		names = append([]string{}, hm.GetHookNames()...)
	}()
	return
}

// namedIn reports whether text names the hook: its relative path appears as a delimited token, either on its
// own or as the tail of the absolute path of the file ("a" is not named by ".../a.sh'", ".../a/b'" or
// ".../lib/a'").
func namedIn(text, name, hooksDir string) bool {
	isBefore := func(c byte) bool { return strings.IndexByte(" '\"`=([<:\t\n", c) >= 0 }
	isAfter := func(c byte) bool { return strings.IndexByte(" '\"`:,;)]>\t\n", c) >= 0 }
	for i := 0; i+len(name) <= len(text); i++ {
		if text[i:i+len(name)] != name {
			continue
		}
		okB := i == 0 || isBefore(text[i-1]) || (text[i-1] == '/' && strings.HasSuffix(text[:i-1], hooksDir))
		j := i + len(name)
		okA := j == len(text) || isAfter(text[j]) || (text[j] == '.' && (j+1 == len(text) || text[j+1] == ' ' || text[j+1] == '\n'))
		if okB && okA {
			return true
		}
	}
	return false
}

func readLog(p string) ([]string, error) {
	b, err := os.ReadFile(p)
	if err != nil {
		return nil, err
	}
	var out []string
	for _, l := range strings.Split(string(b), "\n") {
		if l != "" {
			out = append(out, l)
		}
	}
	return out, nil
}

// onDisk is the tree the previous case left in place. Consecutive cases that differ only in the bad hook reuse
// it: the scripts of the old and of the new bad hook are rewritten and the invocation log is emptied (Init
// writes nothing below the hooks directory).
var onDisk struct {
	key, base, bad string
}

func treeKey(c *Case, root string) string {
	b, _ := json.Marshal(c.Entries)
	return root + "\x00" + string(b)
}

func rewrite(base, root string, c *Case, rel, behaviour string) error {
	p := filepath.Join(base, root, filepath.FromSlash(rel))
	// the file exists: WriteFile keeps its mode bits
	return os.WriteFile(p, []byte(scriptFor(rel, filepath.Join(base, "invocations.log"), behaviour, noiseOf(c, rel))), 0o644)
}

// setup puts the tree of c on disk below scratch, reusing the previous one when only the bad hook differs.
func setup(scratch string, c *Case) (hooksDir, logPath, tmpDir string, err error) {
	key := treeKey(c, c.Root)
	if onDisk.key == key {
		base := onDisk.base
		if onDisk.bad != "" {
			if err = rewrite(base, c.Root, c, onDisk.bad, "good"); err != nil {
				return
			}
		}
		onDisk.bad = ""
		if c.Bad != "" {
			if err = rewrite(base, c.Root, c, c.Bad, c.Kind); err != nil {
				return
			}
			onDisk.bad = c.Bad
		}
		logPath = filepath.Join(base, "invocations.log")
		if err = os.WriteFile(logPath, nil, 0o644); err != nil {
			return
		}
		return filepath.Join(base, c.Root), logPath, filepath.Join(base, "tmp"), nil
	}
	dropTree()
	base := filepath.Join(scratch, fmt.Sprintf("t%d", c.ID))
	os.RemoveAll(base)
	hooksDir, logPath, tmpDir, err = materialise(base, c, c.Root)
	onDisk.base = base
	if err == nil {
		onDisk.key, onDisk.bad = key, c.Bad
	}
	return
}

func dropTree() {
	if onDisk.base != "" {
		os.RemoveAll(onDisk.base)
	}
	onDisk.key, onDisk.base, onDisk.bad = "", "", ""
}

// judge runs the case on the real code and compares what it did with what TLC computed. With base == "" the
// tree is set up (or reused) below scratch under the case's own root name; otherwise a fresh copy is
// materialised below base under the given root name (diagnosis runs).
func judge(c *Case, root, scratch, base string) (sig, detail string, obs *Observed, spawns int, infra error) {
	var hooksDir, logPath, tmpDir string
	var err error
	if base == "" {
		hooksDir, logPath, tmpDir, err = setup(scratch, c)
	} else {
		hooksDir, logPath, tmpDir, err = materialise(base, c, root)
	}
	if err != nil {
		dropTree()
		return "", "", nil, 0, fmt.Errorf("materialise: %w", err)
	}
	names, initErr, panicked := runInit(hooksDir, tmpDir)
	lines, err := readLog(logPath)
	if err != nil {
		return "", "", nil, 0, fmt.Errorf("read log: %w", err)
	}
	obs = &Observed{Names: names, Invocations: lines, Counts: map[string]int{}}
	if initErr != nil {
		obs.Err = initErr.Error()
	}
	spawns = len(lines)
	if panicked != "" {
		return "C20/panic", "Init panicked: " + panicked, obs, spawns, nil
	}
	badArgs := ""
	for _, l := range lines {
		i := strings.LastIndex(l, "|")
		if i < 0 {
			return "", "", obs, spawns, fmt.Errorf("malformed log line %q", l)
		}
		obs.Counts[l[:i]]++
		if l[i+1:] != "--config" && badArgs == "" {
			badArgs = l
		}
	}
	// 1. the --config round: exactly once / at most once / never
	allowed := map[string]int{} // name -> 1 exact, 2 at most once
	for _, n := range c.Once {
		allowed[n] = 1
	}
	for _, n := range c.Atmost {
		allowed[n] = 2
	}
	var never, twice, missing []string
	for n, k := range obs.Counts {
		if allowed[n] == 0 {
			never = append(never, n)
		} else if k > 1 {
			twice = append(twice, fmt.Sprintf("%s x%d", n, k))
		}
	}
	for _, n := range c.Once {
		if obs.Counts[n] == 0 {
			missing = append(missing, n)
		}
	}
	sort.Strings(never)
	sort.Strings(twice)
	sort.Strings(missing)

	if c.OK {
		if initErr != nil {
			if len(never) > 0 {
				return "C20/not-a-hook-executed", fmt.Sprintf("files that are not hooks were executed: %v; Init failed: %s", never, short(obs.Err)), obs, spawns, nil
			}
			if len(names) == 0 && len(lines) == 0 && len(c.Names) > 0 {
				return "C20/hook-set", fmt.Sprintf("Init failed before running any hook although %v are hooks: %s", c.Names, short(obs.Err)), obs, spawns, nil
			}
			return "C20/unexpected-error", fmt.Sprintf("no hook is bad but Init failed: %s", short(obs.Err)), obs, spawns, nil
		}
		if !sameSet(names, c.Names) {
			return "C20/hook-set", fmt.Sprintf("GetHookNames() = %v, the hooks of this tree are %v", names, c.Names), obs, spawns, nil
		}
		if !reflect.DeepEqual(nonNil(names), nonNil(c.Names)) {
			return "C20/load-order", fmt.Sprintf("GetHookNames() = %v, lexical order of the paths is %v", names, c.Names), obs, spawns, nil
		}
	}
	if len(never) > 0 {
		return "C20/not-a-hook-executed", fmt.Sprintf("files that are not hooks were executed: %v", never), obs, spawns, nil
	}
	if len(missing) > 0 {
		return "C20/config-not-run", fmt.Sprintf("--config was never run for %v (invocations: %v)", missing, lines), obs, spawns, nil
	}
	if len(twice) > 0 {
		return "C20/config-run-twice", fmt.Sprintf("--config ran more than once: %v", twice), obs, spawns, nil
	}
	if badArgs != "" {
		return "C20/config-args", fmt.Sprintf("a hook was started with other arguments than --config during Init: %q", badArgs), obs, spawns, nil
	}
	if !c.OK {
		if initErr == nil {
			return "C20/bad-hook-accepted/" + c.Kind, fmt.Sprintf("hook %q is bad (%s) but Init returned no error; GetHookNames() = %v", c.Bad, c.Kind, names), obs, spawns, nil
		}
		if !namedIn(obs.Err, c.Errname, hooksDir) {
			return "C20/error-without-hook-name/" + c.Kind, fmt.Sprintf("the error does not name the bad hook %q: %s", c.Errname, short(obs.Err)), obs, spawns, nil
		}
	}
	return "", "", obs, spawns, nil
}

func short(s string) string {
	if len(s) > 400 {
		return s[:400] + "..."
	}
	return s
}

func nonNil(s []string) []string {
	if s == nil {
		return []string{}
	}
	return s
}

func sameSet(a, b []string) bool {
	x := append([]string{}, a...)
	y := append([]string{}, b...)
	sort.Strings(x)
	sort.Strings(y)
	return reflect.DeepEqual(x, y)
}

func runCase(c *Case, scratch string) Result {
	sig, detail, obs, spawns, infra := judge(c, c.Root, scratch, "")
	if infra != nil {
		return Result{Case: c.ID, OK: false, Sig: "INFRA", Detail: infra.Error()}
	}
	res := Result{Case: c.ID, OK: sig == "", Sig: sig, Detail: detail, Spawns: spawns}
	for _, n := range c.Once {
		if n != c.Bad && noiseOf(c, n) != 0 {
			res.Noisy++
		}
	}
	if sig != "" {
		res.Got = obs
		// Diagnosis for the signature: does the very same tree pass when the hooks directory has an ordinary name?
		if c.Root != "hooks" {
			diag := filepath.Join(scratch, fmt.Sprintf("d%d", c.ID))
			os.RemoveAll(diag)
			sig2, _, _, sp2, infra2 := judge(c, "hooks", scratch, diag)
			os.RemoveAll(diag)
			res.Spawns += sp2
			if infra2 == nil && sig2 == "" {
				res.RootOnly = true
				cls := "other"
				if c.Root == "lib" {
					cls = "lib"
				} else if strings.HasPrefix(c.Root, ".") {
					cls = "hidden"
				}
				res.Sig = "C20/root-dir-name/" + cls
				res.Detail = fmt.Sprintf("hooks directory named %q: %s (the same tree passes in a directory named \"hooks\")", c.Root, detail)
			}
		}
	}
	return res
}

func main() {
	if len(os.Args) < 2 || os.Args[1] != "run" {
		fmt.Fprintln(os.Stderr, "usage: discover run -in cases.jsonl -out results.jsonl -scratch DIR")
		os.Exit(2)
	}
	fs := flag.NewFlagSet("run", flag.ExitOnError)
	in := fs.String("in", "", "cases (JSON lines)")
	out := fs.String("out", "", "results (JSON lines)")
	scratch := fs.String("scratch", "", "scratch directory for the materialised trees")
	fs.Parse(os.Args[2:])
	if *in == "" || *out == "" || *scratch == "" {
		fmt.Fprintln(os.Stderr, "missing -in/-out/-scratch")
		os.Exit(2)
	}
	var cases []Case
	f, err := os.Open(*in)
	if err != nil {
		fmt.Fprintln(os.Stderr, err)
		os.Exit(2)
	}
	sc := bufio.NewScanner(f)
	sc.Buffer(make([]byte, 1<<20), 1<<26)
	for sc.Scan() {
		if len(strings.TrimSpace(sc.Text())) == 0 {
			continue
		}
		var c Case
		if err := json.Unmarshal(sc.Bytes(), &c); err != nil {
			fmt.Fprintln(os.Stderr, "bad case:", err)
			os.Exit(2)
		}
		cases = append(cases, c)
	}
	f.Close()

	if !supervise.IsChild() {
		err := supervise.Run(len(cases), *out, 60*time.Second, func(idx int, why string) interface{} {
			id := -1
			if idx < len(cases) {
				id = cases[idx].ID
			}
			return Result{Case: id, OK: false, Sig: "C20/crash", Detail: "the process died while this case was running: " + why}
		})
		if err != nil {
			fmt.Fprintln(os.Stderr, err)
			os.Exit(2)
		}
		return
	}

	// child: silence the global logger of the code under test, process cases one by one
	log.SetDefault(log.NewNop())
	if err := os.MkdirAll(*scratch, 0o755); err != nil {
		fmt.Fprintln(os.Stderr, err)
		os.Exit(2)
	}
	of, err := os.OpenFile(*out, os.O_APPEND|os.O_WRONLY|os.O_CREATE, 0o644)
	if err != nil {
		fmt.Fprintln(os.Stderr, err)
		os.Exit(2)
	}
	defer of.Close()
	for i := supervise.Skip(); i < len(cases); i++ {
		r := runCase(&cases[i], *scratch)
		b, _ := json.Marshal(r)
		of.Write(append(b, '\n'))
	}
	dropTree()
}
