// Command hookbin is the hook process used by the operator-level harness. It is hard-linked under every hook
// name of a generated hooks directory.
//
//	--config : prints $VERIF_CTL_DIR/config/<safe name>.yaml and appends the hook name to config.log
//	run      : writes exec/<id>.start (hook, contexts, environment, state of the output files), then either waits
//	           for exec/<id>.go (VERIF_HOOK_MODE=block) or takes the next outcome from plan/<safe name>.json,
//	           writes the output files and exits with the given code after writing exec/<id>.end. A negative
//	           exit code -N means: after everything is written, terminate by sending signal N to itself
//	           (9 = SIGKILL, 15 = SIGTERM), as a hook killed from outside would end.
package main

import (
	"encoding/json"
	"fmt"
	"os"
	"path/filepath"
	"sort"
	"strings"
	"syscall"
	"time"
)

type Outcome struct {
	Exit       int    `json:"exit"`
	SleepMs    int    `json:"sleep_ms"`
	Patch      string `json:"patch"`
	Metrics    string `json:"metrics"`
	Admission  string `json:"admission"`
	Conversion string `json:"conversion"`
	Stdout     string `json:"stdout"`
}

func safe(n string) string { return strings.NewReplacer("/", "__", " ", "_").Replace(n) }

func writeAtomic(path string, v interface{}) {
	b, _ := json.Marshal(v)
	tmp := path + ".tmp"
	os.WriteFile(tmp, b, 0o644)
	os.Rename(tmp, path)
}

func appendLine(path, line string) {
	f, err := os.OpenFile(path, os.O_APPEND|os.O_CREATE|os.O_WRONLY, 0o644)
	if err == nil {
		f.WriteString(line + "\n")
		f.Close()
	}
}

func main() {
	ctl := os.Getenv("VERIF_CTL_DIR")
	hooksDir := os.Getenv("VERIF_HOOKS_DIR")
	self, _ := filepath.Abs(os.Args[0])
	name, err := filepath.Rel(hooksDir, self)
	if err != nil {
		name = filepath.Base(self)
	}
	if len(os.Args) > 1 && os.Args[1] == "--config" {
		appendLine(filepath.Join(ctl, "config.log"), name)
		b, err := os.ReadFile(filepath.Join(ctl, "config", safe(name)+".yaml"))
		if err != nil {
			fmt.Fprintln(os.Stderr, "no config for", name)
			os.Exit(1)
		}
		if strings.HasPrefix(string(b), "#!fail") {
			os.Exit(3)
		}
		os.Stdout.Write(b)
		return
	}
	id := fmt.Sprintf("%020d-%d", time.Now().UnixNano(), os.Getpid())
	ctxPath := os.Getenv("BINDING_CONTEXT_PATH")
	raw, _ := os.ReadFile(ctxPath)
	var ctxs interface{}
	json.Unmarshal(raw, &ctxs)
	env := map[string]string{}
	files := map[string]interface{}{}
	for _, k := range []string{"BINDING_CONTEXT_PATH", "METRICS_PATH", "KUBERNETES_PATCH_PATH", "VALIDATING_RESPONSE_PATH", "ADMISSION_RESPONSE_PATH", "CONVERSION_RESPONSE_PATH"} {
		env[k] = os.Getenv(k)
		if st, err := os.Stat(env[k]); err == nil {
			files[k] = st.Size()
		} else {
			files[k] = "missing"
		}
	}
	cwd, _ := os.Getwd()
	var listing []string
	if ctxPath != "" {
		ents, _ := os.ReadDir(filepath.Dir(ctxPath))
		for _, e := range ents {
			listing = append(listing, e.Name())
		}
		sort.Strings(listing)
	}
	start := map[string]interface{}{"id": id, "hook": name, "pid": os.Getpid(), "start": time.Now().UnixNano(), "cwd": cwd, "env": env,
		"files": files, "contexts": ctxs, "raw_ok": ctxs != nil, "tmp_listing": listing, "args": os.Args[1:]}
	os.MkdirAll(filepath.Join(ctl, "exec"), 0o755)
	writeAtomic(filepath.Join(ctl, "exec", id+".start"), start)

	var out Outcome
	if os.Getenv("VERIF_HOOK_MODE") == "block" {
		goPath := filepath.Join(ctl, "exec", id+".go")
		deadline := time.Now().Add(60 * time.Second)
		for {
			b, err := os.ReadFile(goPath)
			if err == nil && json.Unmarshal(b, &out) == nil {
				break
			}
			if time.Now().After(deadline) {
				out.Exit = 97
				break
			}
			time.Sleep(200 * time.Microsecond)
		}
	} else {
		// plan mode: the n-th execution of this hook takes the n-th outcome (the last one repeats)
		var plan []Outcome
		b, _ := os.ReadFile(filepath.Join(ctl, "plan", safe(name)+".json"))
		json.Unmarshal(b, &plan)
		n := 0
		for {
			f, err := os.OpenFile(filepath.Join(ctl, "plan", fmt.Sprintf("%s.count.%d", safe(name), n)), os.O_CREATE|os.O_EXCL|os.O_WRONLY, 0o644)
			if err == nil {
				f.Close()
				break
			}
			n++
		}
		if len(plan) > 0 {
			if n >= len(plan) {
				n = len(plan) - 1
			}
			out = plan[n]
		}
	}
	if out.SleepMs > 0 {
		time.Sleep(time.Duration(out.SleepMs) * time.Millisecond)
	}
	w := func(envKey, content string) {
		if content != "" && os.Getenv(envKey) != "" {
			os.WriteFile(os.Getenv(envKey), []byte(content), 0o644)
		}
	}
	w("KUBERNETES_PATCH_PATH", out.Patch)
	w("METRICS_PATH", out.Metrics)
	w("VALIDATING_RESPONSE_PATH", out.Admission)
	w("ADMISSION_RESPONSE_PATH", out.Admission)
	w("CONVERSION_RESPONSE_PATH", out.Conversion)
	if out.Stdout != "" {
		fmt.Println(out.Stdout)
	}
	writeAtomic(filepath.Join(ctl, "exec", id+".end"), map[string]interface{}{"id": id, "hook": name, "end": time.Now().UnixNano(), "exit": out.Exit})
	if out.Exit < 0 {
		syscall.Kill(os.Getpid(), syscall.Signal(-out.Exit))
		time.Sleep(30 * time.Second) // the signal is delivered asynchronously; never reached for a fatal signal
		os.Exit(98)
	}
	os.Exit(out.Exit)
}
