//go:build verif

// Command admission binds spec/Admission (property C14) to the real admission webhook chain of shell-operator.
//
//	admission -in cases.jsonl -out results.jsonl -hookbin <hookbin> -work <scratch dir>
//
// Every line of -in is one case printed by TLC from spec/Admission: a configuration of kubernetesValidating /
// kubernetesMutating bindings over the hooks h1, h2 (with the webhook path TLC derived from each binding name),
// one HTTP request (path, body class), the scripted outcome of every hook process (exit code + the bytes it
// writes to $VALIDATING_RESPONSE_PATH) and the answer the reference demands (`exp`, `ran`).
//
// For every configuration the REAL operator is assembled (opfix: generated hooks directory, hookbin processes,
// fake cluster), the REAL initValidatingWebhookManager is run (WebhookManager.Init/Start with a CA and a server
// certificate generated at run time, TLS listener on 127.0.0.1:0, Validating/MutatingWebhookConfiguration
// objects created on the fake cluster) and the manager's chi router - with the production event handler closure
// installed - is served by net/http/httptest. Each case POSTs its request; compared with TLC's expectation:
// HTTP status, response.allowed, response.uid, response.status.message, response.warnings, response.patch,
// response.patchType, and which hook processes ran with which binding context (exec/*.start written by hookbin).
// Once per configuration the webhook paths registered in the cluster objects are compared with TLC's paths.
// Expected values are never computed here.
package main

import (
	"bufio"
	"bytes"
	"context"
	"crypto/ecdsa"
	"crypto/elliptic"
	"crypto/rand"
	"crypto/x509"
	"crypto/x509/pkix"
	"encoding/base64"
	"encoding/json"
	"encoding/pem"
	"flag"
	"fmt"
	"io"
	"math/big"
	"net"
	"net/http"
	"net/http/httptest"
	"os"
	"path/filepath"
	"reflect"
	"sort"
	"strings"
	"syscall"
	"time"

	"github.com/deckhouse/deckhouse/pkg/log"
	metav1 "k8s.io/apimachinery/pkg/apis/meta/v1"

	"github.com/flant/shell-operator/pkg/app"

	"verifharness/internal/opfix"
	"verifharness/internal/supervise"
)

type Binding struct {
	Hook string `json:"hook"`
	Kind string `json:"kind"`
	Name string `json:"name"`
	Wid  string `json:"wid"`
	Path string `json:"path"`
}

type Req struct {
	Path   string `json:"path"`
	Pclass string `json:"pclass"`
	Body   string `json:"body"`
	UID    string `json:"uid"`
}

type PlanRec struct {
	Exit int    `json:"exit"`
	Rc   string `json:"rc"`
	Text string `json:"text"`
}

type RanRec struct {
	Hook    string `json:"hook"`
	Binding string `json:"binding"`
	Type    string `json:"type"`
	UID     string `json:"uid"`
}

type Exp struct {
	HTTP       string   `json:"http"`
	Allowed    bool     `json:"allowed"`
	UID        string   `json:"uid"`
	Verdict    bool     `json:"verdict"`
	CheckMsg   bool     `json:"checkMsg"`
	Msg        string   `json:"msg"`
	Warnings   []string `json:"warnings"`
	CheckPatch bool     `json:"checkPatch"`
	Patch      string   `json:"patch"`
	PatchType  string   `json:"patchType"`
}

type Case struct {
	CfgID int                `json:"cfgid"`
	Cfg   []Binding          `json:"cfg"`
	Req   Req                `json:"req"`
	Plan  map[string]PlanRec `json:"plan"`
	Ran   []RanRec           `json:"ran"`
	Exp   Exp                `json:"exp"`
}

type Obs struct {
	HTTP      int      `json:"http"`
	Parsed    bool     `json:"parsed"`
	Allowed   bool     `json:"allowed"`
	UID       string   `json:"uid"`
	Code      int      `json:"code"`
	Message   string   `json:"message"`
	Warnings  []string `json:"warnings"`
	Patch     string   `json:"patch"`
	PatchType string   `json:"patchType"`
	Ran       []RanRec `json:"ran"`
	SentUID   string   `json:"sent_uid"`
	Raw       string   `json:"raw,omitempty"`
}

type Result struct {
	Case   int    `json:"case"`
	OK     bool   `json:"ok"`
	Sig    string `json:"sig,omitempty"`
	Detail string `json:"detail,omitempty"`
	Obs    *Obs   `json:"obs,omitempty"`
	Execs  int    `json:"execs"`
	Setup  bool   `json:"setup"` // this case paid for a fresh operator
}

func cfgKey(bs []Binding) string {
	s := append([]Binding(nil), bs...)
	sort.Slice(s, func(i, j int) bool {
		if s[i].Hook != s[j].Hook {
			return s[i].Hook < s[j].Hook
		}
		if s[i].Kind != s[j].Kind {
			return s[i].Kind > s[j].Kind // validating first
		}
		return s[i].Name < s[j].Name
	})
	b, _ := json.Marshal(s)
	return string(b)
}

// ---------------------------------------------------------------------------------------------
// certificates
// ---------------------------------------------------------------------------------------------

func genCerts(dir, host string) error {
	caKey, err := ecdsa.GenerateKey(elliptic.P256(), rand.Reader)
	if err != nil {
		return err
	}
	caTpl := &x509.Certificate{SerialNumber: big.NewInt(1), Subject: pkix.Name{CommonName: "verif-ca"},
		NotBefore: time.Now().Add(-time.Hour), NotAfter: time.Now().Add(24 * time.Hour), IsCA: true,
		KeyUsage: x509.KeyUsageCertSign | x509.KeyUsageDigitalSignature, BasicConstraintsValid: true}
	caDER, err := x509.CreateCertificate(rand.Reader, caTpl, caTpl, &caKey.PublicKey, caKey)
	if err != nil {
		return err
	}
	srvKey, err := ecdsa.GenerateKey(elliptic.P256(), rand.Reader)
	if err != nil {
		return err
	}
	srvTpl := &x509.Certificate{SerialNumber: big.NewInt(2), Subject: pkix.Name{CommonName: host},
		NotBefore: time.Now().Add(-time.Hour), NotAfter: time.Now().Add(24 * time.Hour),
		KeyUsage: x509.KeyUsageDigitalSignature, ExtKeyUsage: []x509.ExtKeyUsage{x509.ExtKeyUsageServerAuth},
		DNSNames: []string{host, host + ".svc"}, IPAddresses: []net.IP{net.ParseIP("127.0.0.1")}}
	srvDER, err := x509.CreateCertificate(rand.Reader, srvTpl, caTpl, &srvKey.PublicKey, caKey)
	if err != nil {
		return err
	}
	keyDER, err := x509.MarshalECPrivateKey(srvKey)
	if err != nil {
		return err
	}
	w := func(name, typ string, der []byte) error {
		return os.WriteFile(filepath.Join(dir, name), pem.EncodeToMemory(&pem.Block{Type: typ, Bytes: der}), 0o600)
	}
	if err := w("ca.crt", "CERTIFICATE", caDER); err != nil {
		return err
	}
	if err := w("tls.crt", "CERTIFICATE", srvDER); err != nil {
		return err
	}
	return w("tls.key", "EC PRIVATE KEY", keyDER)
}

// ---------------------------------------------------------------------------------------------
// one configuration = one operator
// ---------------------------------------------------------------------------------------------

const rules = `  rules:
  - apiGroups: ["stable.example.com"]
    apiVersions: ["v1"]
    operations: ["CREATE", "UPDATE"]
    resources: ["crontabs"]
    scope: "Namespaced"
`

func hookConfigs(bs []Binding) []opfix.HookCfg {
	per := map[string]map[string][]string{}
	for _, b := range bs {
		if per[b.Hook] == nil {
			per[b.Hook] = map[string][]string{}
		}
		per[b.Hook][b.Kind] = append(per[b.Hook][b.Kind], b.Name)
	}
	var names []string
	for h := range per {
		names = append(names, h)
	}
	sort.Strings(names)
	var out []opfix.HookCfg
	for _, h := range names {
		var sb strings.Builder
		sb.WriteString("configVersion: v1\n")
		for _, kv := range [][2]string{{"validating", "kubernetesValidating"}, {"mutating", "kubernetesMutating"}} {
			ns := per[h][kv[0]]
			if len(ns) == 0 {
				continue
			}
			sort.Strings(ns)
			sb.WriteString(kv[1] + ":\n")
			for _, n := range ns {
				fmt.Fprintf(&sb, "- name: %q\n%s", n, rules)
			}
		}
		out = append(out, opfix.HookCfg{Name: h, Raw: sb.String()})
	}
	return out
}

type setup struct {
	key     string
	fx      *opfix.Fixture
	srv     *httptest.Server
	regErr  string // mismatch between the registered webhook paths and TLC's
	regDone bool
}

type env struct {
	work, hookbin, certs string
	cur                  *setup
	seq                  int
}

func (e *env) close() {
	if e.cur != nil {
		if e.cur.srv != nil {
			e.cur.srv.Close()
		}
		if e.cur.fx != nil {
			e.cur.fx.Close()
		}
		e.cur = nil
	}
}

func (e *env) get(c Case) (*setup, bool, error) {
	key := cfgKey(c.Cfg)
	if e.cur != nil && e.cur.key == key {
		return e.cur, false, nil
	}
	e.close()
	s := &setup{key: key}
	app.ValidatingWebhookSettings.ServerCertPath = filepath.Join(e.certs, "tls.crt")
	app.ValidatingWebhookSettings.ServerKeyPath = filepath.Join(e.certs, "tls.key")
	app.ValidatingWebhookSettings.CAPath = filepath.Join(e.certs, "ca.crt")
	app.ValidatingWebhookSettings.ListenAddr = "127.0.0.1"
	app.ValidatingWebhookSettings.ListenPort = "0"
	app.ValidatingWebhookSettings.ClientCAPaths = nil
	app.Namespace = "default"
	fx, err := opfix.New(hookConfigs(c.Cfg), e.hookbin, "plan", false)
	s.fx = fx
	if err != nil {
		if fx != nil {
			fx.Close()
		}
		return nil, true, fmt.Errorf("assemble operator: %v", err)
	}
	if err := fx.Op.VerifInitAdmission(); err != nil {
		fx.Close()
		return nil, true, fmt.Errorf("initValidatingWebhookManager: %v", err)
	}
	mgr := fx.Op.AdmissionWebhookManager
	if mgr == nil || mgr.Handler == nil || mgr.Handler.Router == nil {
		fx.Close()
		return nil, true, fmt.Errorf("admission webhook manager has no router after init")
	}
	s.srv = httptest.NewServer(mgr.Handler.Router)
	s.regErr = checkRegistered(fx, c.Cfg)
	e.cur = s
	return s, true, nil
}

// checkRegistered compares the clientConfig.service.path of every webhook in the cluster objects with TLC's path.
func checkRegistered(fx *opfix.Fixture, bs []Binding) string {
	got := map[string]string{} // kind/name -> path
	vl, err := fx.FC.Client.AdmissionregistrationV1().ValidatingWebhookConfigurations().List(context.Background(), metav1.ListOptions{})
	if err != nil {
		return "list ValidatingWebhookConfigurations: " + err.Error()
	}
	for _, conf := range vl.Items {
		for _, w := range conf.Webhooks {
			p := "<no service path>"
			if w.ClientConfig.Service != nil && w.ClientConfig.Service.Path != nil {
				p = *w.ClientConfig.Service.Path
			}
			got["validating/"+w.Name] = p
		}
	}
	ml, err := fx.FC.Client.AdmissionregistrationV1().MutatingWebhookConfigurations().List(context.Background(), metav1.ListOptions{})
	if err != nil {
		return "list MutatingWebhookConfigurations: " + err.Error()
	}
	for _, conf := range ml.Items {
		for _, w := range conf.Webhooks {
			p := "<no service path>"
			if w.ClientConfig.Service != nil && w.ClientConfig.Service.Path != nil {
				p = *w.ClientConfig.Service.Path
			}
			got["mutating/"+w.Name] = p
		}
	}
	want := map[string]string{}
	for _, b := range bs {
		want[b.Kind+"/"+b.Name] = b.Path
	}
	if !reflect.DeepEqual(got, want) {
		return fmt.Sprintf("webhook paths registered in the cluster %v, specification %v", got, want)
	}
	return ""
}

// ---------------------------------------------------------------------------------------------
// one case
// ---------------------------------------------------------------------------------------------

func reviewBody(uid string) string {
	return fmt.Sprintf(`{"apiVersion":"admission.k8s.io/v1","kind":"AdmissionReview","request":{"uid":%q,`+
		`"kind":{"group":"stable.example.com","version":"v1","kind":"CronTab"},`+
		`"resource":{"group":"stable.example.com","version":"v1","resource":"crontabs"},`+
		`"requestKind":{"group":"stable.example.com","version":"v1","kind":"CronTab"},`+
		`"requestResource":{"group":"stable.example.com","version":"v1","resource":"crontabs"},`+
		`"name":"ct-1","namespace":"default","operation":"CREATE",`+
		`"userInfo":{"username":"admin","uid":"014fbff9a07c","groups":["system:authenticated"]},`+
		`"object":{"apiVersion":"stable.example.com/v1","kind":"CronTab","metadata":{"name":"ct-1","namespace":"default"},"spec":{"replicas":5,"image":"repo.example.com/cron:v1"}},`+
		`"oldObject":null,"dryRun":false,"options":{"apiVersion":"meta.k8s.io/v1","kind":"CreateOptions"}}}`, uid)
}

func (e *env) run(n int, c Case) Result {
	res := Result{Case: n}
	fail := func(sig, detail string, o *Obs) Result {
		res.OK, res.Sig, res.Detail, res.Obs = false, sig, detail, o
		return res
	}
	s, fresh, err := e.get(c)
	res.Setup = fresh
	if err != nil {
		return fail("harness/setup", err.Error(), nil)
	}
	if !s.regDone {
		s.regDone = true
		if s.regErr != "" {
			return fail("C14/registered-path", s.regErr, nil)
		}
	}
	fx := s.fx
	// script the hook processes: every execution of hook h takes plan[h]
	planDir := filepath.Join(fx.CtlDir, "plan")
	if ents, err := os.ReadDir(planDir); err == nil {
		for _, en := range ents {
			os.Remove(filepath.Join(planDir, en.Name()))
		}
	}
	for h, p := range c.Plan {
		b, _ := json.Marshal([]map[string]interface{}{{"exit": p.Exit, "admission": p.Text}})
		if err := os.WriteFile(filepath.Join(planDir, h+".json"), b, 0o644); err != nil {
			return fail("harness/plan", err.Error(), nil)
		}
	}
	fx.NewExecs() // forget anything older

	e.seq++
	uid := fmt.Sprintf("%s-%d-%d-705ab4f5-6393-11e8-b7cc-42010a800002", c.Req.UID, n, e.seq)
	ctype := "application/json"
	var body string
	switch c.Req.Body {
	case "ok":
		body = reviewBody(uid)
	case "notjson":
		body = "{{{ not json"
	case "empty":
		body = ""
	case "norequest":
		body = `{"apiVersion":"admission.k8s.io/v1","kind":"AdmissionReview"}`
	case "reqstring":
		body = `{"apiVersion":"admission.k8s.io/v1","kind":"AdmissionReview","request":"oops"}`
	case "ctype":
		body = reviewBody(uid)
		ctype = "text/plain"
	default:
		return fail("harness/case", "unknown body class "+c.Req.Body, nil)
	}
	hreq, err := http.NewRequest("POST", s.srv.URL+c.Req.Path, bytes.NewReader([]byte(body)))
	if err != nil {
		return fail("harness/http", err.Error(), nil)
	}
	hreq.Header.Set("Content-Type", ctype)
	resp, err := http.DefaultClient.Do(hreq)
	if err != nil {
		return fail("harness/http", err.Error(), nil)
	}
	raw, _ := io.ReadAll(resp.Body)
	resp.Body.Close()

	o := &Obs{HTTP: resp.StatusCode, SentUID: uid, Warnings: []string{}, Ran: []RanRec{}}
	var review struct {
		Response *struct {
			UID     string `json:"uid"`
			Allowed *bool  `json:"allowed"`
			Status  *struct {
				Message string `json:"message"`
				Code    int    `json:"code"`
			} `json:"status"`
			Warnings  []string `json:"warnings"`
			Patch     *string  `json:"patch"`
			PatchType *string  `json:"patchType"`
		} `json:"response"`
	}
	if json.Unmarshal(raw, &review) == nil && review.Response != nil && review.Response.Allowed != nil {
		r := review.Response
		o.Parsed, o.Allowed, o.UID = true, *r.Allowed, r.UID
		if r.Status != nil {
			o.Message, o.Code = r.Status.Message, r.Status.Code
		}
		if r.Warnings != nil {
			o.Warnings = r.Warnings
		}
		if r.Patch != nil {
			dec, derr := base64.StdEncoding.DecodeString(*r.Patch)
			if derr != nil {
				o.Patch = "<not base64: " + *r.Patch + ">"
			} else {
				o.Patch = string(dec)
			}
		}
		if r.PatchType != nil {
			o.PatchType = *r.PatchType
		}
	} else {
		o.Raw = string(raw)
		if len(o.Raw) > 300 {
			o.Raw = o.Raw[:300]
		}
	}
	// which hook processes ran, with what
	ctxProblem := ""
	for _, x := range fx.NewExecs() {
		res.Execs++
		rr := RanRec{Hook: x.Hook}
		if len(x.Contexts) != 1 {
			ctxProblem = fmt.Sprintf("hook %s received %d binding contexts", x.Hook, len(x.Contexts))
		}
		if len(x.Contexts) > 0 {
			bc := x.Contexts[0]
			rr.Binding, _ = bc["binding"].(string)
			rr.Type, _ = bc["type"].(string)
			if rv, ok := bc["review"].(map[string]interface{}); ok {
				if rq, ok := rv["request"].(map[string]interface{}); ok {
					rr.UID, _ = rq["uid"].(string)
				}
			}
		}
		o.Ran = append(o.Ran, rr)
	}
	twoXX := o.HTTP >= 200 && o.HTTP < 300
	regRc, regExit := "none", 0
	if len(c.Ran) > 0 {
		regRc, regExit = c.Plan[c.Ran[0].Hook].Rc, c.Plan[c.Ran[0].Hook].Exit
	}
	class := fmt.Sprintf("%s/%s/%s/exit%d", c.Req.Pclass, c.Req.Body, regRc, regExit)

	// --- FailClosed ---
	if o.Parsed && twoXX && o.Allowed && !(c.Exp.HTTP == "200" && c.Exp.Allowed) {
		return fail("C14/fail-open/"+class, fmt.Sprintf("answered allowed=true; the specification demands %+v", c.Exp), o)
	}
	if c.Exp.HTTP == "non2xx" {
		// no request in the body: any non-2xx answer or a denial
		if len(o.Ran) > 0 {
			return fail("C14/hook-ran-unexpected/"+class, fmt.Sprintf("hook processes ran for a body without a request: %+v", o.Ran), o)
		}
		res.OK = true
		return res
	}
	if !twoXX || !o.Parsed {
		if c.Exp.Allowed {
			return fail("C14/verdict/no-answer/"+class, fmt.Sprintf("HTTP %d without an AdmissionReview response; expected allowed=true", o.HTTP), o)
		}
		return fail("C14/deny-not-answered/"+class, fmt.Sprintf("HTTP %d without an AdmissionReview response; a denial is demanded (a non-2xx answer is subject to failurePolicy)", o.HTTP), o)
	}
	// --- UidEchoed ---
	if o.UID != uid {
		return fail("C14/uid/"+class, fmt.Sprintf("response.uid %q, request uid %q", o.UID, uid), o)
	}
	// --- VerdictRelayed ---
	if o.Allowed != c.Exp.Allowed {
		return fail("C14/verdict/allowed/"+class, fmt.Sprintf("response.allowed=%v, the hook's verdict demands %v", o.Allowed, c.Exp.Allowed), o)
	}
	if c.Exp.Verdict {
		if c.Exp.CheckMsg && o.Message != c.Exp.Msg {
			return fail("C14/verdict/message/"+class, fmt.Sprintf("status.message %q, hook's message %q", o.Message, c.Exp.Msg), o)
		}
		if !(len(o.Warnings) == 0 && len(c.Exp.Warnings) == 0) && !reflect.DeepEqual(o.Warnings, c.Exp.Warnings) {
			return fail("C14/verdict/warnings/"+class, fmt.Sprintf("warnings %q, hook's warnings %q", o.Warnings, c.Exp.Warnings), o)
		}
		if c.Exp.CheckPatch {
			if o.Patch != c.Exp.Patch {
				return fail("C14/verdict/patch/"+class, fmt.Sprintf("patch %q, hook's patch %q", o.Patch, c.Exp.Patch), o)
			}
			if o.PatchType != c.Exp.PatchType {
				return fail("C14/verdict/patchType/"+class, fmt.Sprintf("patchType %q, expected %q (patch %q)", o.PatchType, c.Exp.PatchType, c.Exp.Patch), o)
			}
		}
	}
	// --- RightHookRuns ---
	if len(c.Ran) == 0 && len(o.Ran) > 0 {
		return fail("C14/hook-ran-unexpected/"+class, fmt.Sprintf("hook processes ran: %+v; nobody registered %s", o.Ran, c.Req.Path), o)
	}
	if len(c.Ran) > 0 {
		if len(o.Ran) == 0 {
			return fail("C14/hook-not-run/"+class, fmt.Sprintf("no hook process ran; %s is registered by %+v", c.Req.Path, c.Ran[0]), o)
		}
		want := c.Ran[0]
		want.UID = uid
		for _, g := range o.Ran {
			if g.Hook != want.Hook {
				return fail("C14/wrong-hook/"+class, fmt.Sprintf("hook %s ran; %s is registered by %+v", g.Hook, c.Req.Path, want), o)
			}
			if g != want {
				return fail("C14/wrong-binding/"+class, fmt.Sprintf("hook received %+v; the path is registered by %+v", g, want), o)
			}
		}
		if ctxProblem != "" {
			return fail("C14/wrong-binding/"+class, ctxProblem, o)
		}
	}
	res.OK = true
	if len(o.Ran) > 1 {
		res.Detail = fmt.Sprintf("NOTE: %d executions for one request", len(o.Ran))
	}
	return res
}

// ---------------------------------------------------------------------------------------------

func readCases(path string) ([]Case, error) {
	f, err := os.Open(path)
	if err != nil {
		return nil, err
	}
	defer f.Close()
	sc := bufio.NewScanner(f)
	sc.Buffer(make([]byte, 1<<20), 1<<26)
	var out []Case
	for sc.Scan() {
		if len(bytes.TrimSpace(sc.Bytes())) == 0 {
			continue
		}
		var c Case
		if err := json.Unmarshal(sc.Bytes(), &c); err != nil {
			return nil, fmt.Errorf("case %d: %v", len(out), err)
		}
		out = append(out, c)
	}
	return out, sc.Err()
}

func main() {
	os.Setenv("QUEUE_ACTIONS_METRICS", "no")
	in := flag.String("in", "", "cases (JSON lines, cases of one configuration adjacent)")
	out := flag.String("out", "", "results (JSON lines)")
	hookbin := flag.String("hookbin", "", "path of the hookbin helper")
	work := flag.String("work", "", "scratch directory")
	flag.Parse()
	if *in == "" || *out == "" || *hookbin == "" || *work == "" {
		fmt.Fprintln(os.Stderr, "usage: admission -in cases.jsonl -out results.jsonl -hookbin path -work dir")
		os.Exit(2)
	}
	cases, err := readCases(*in)
	if err != nil {
		fmt.Fprintln(os.Stderr, err)
		os.Exit(2)
	}
	if !supervise.IsChild() {
		err := supervise.Run(len(cases), *out, 60*time.Second, func(idx int, why string) interface{} {
			sig := "C14/crash"
			if strings.HasPrefix(why, "no progress") {
				// nothing in the chain waits on anything but the scripted hook process: a stall is the sandbox's
				return Result{Case: idx, OK: false, Sig: "harness/hang", Detail: why}
			}
			if idx < len(cases) {
				sig = fmt.Sprintf("C14/crash/%s/%s", cases[idx].Req.Pclass, cases[idx].Req.Body)
			}
			return Result{Case: idx, OK: false, Sig: sig, Detail: why}
		})
		if err != nil {
			fmt.Fprintln(os.Stderr, err)
			os.Exit(2)
		}
		return
	}
	// child: everything the operator writes to stdout (request log of the webhook router) is dropped
	if dn, err := os.OpenFile(os.DevNull, os.O_WRONLY, 0); err == nil {
		os.Stdout = dn
	}
	log.SetDefault(log.NewNop())
	var rl syscall.Rlimit
	if syscall.Getrlimit(syscall.RLIMIT_NOFILE, &rl) == nil && rl.Cur < rl.Max {
		rl.Cur = rl.Max
		syscall.Setrlimit(syscall.RLIMIT_NOFILE, &rl)
	}
	tmp := filepath.Join(*work, fmt.Sprintf("adm-%d", os.Getpid()))
	certs := filepath.Join(tmp, "certs")
	if err := os.MkdirAll(certs, 0o755); err != nil {
		fmt.Fprintln(os.Stderr, err)
		os.Exit(2)
	}
	os.Setenv("TMPDIR", tmp) // opfix creates its directories with os.MkdirTemp("")
	if err := genCerts(certs, app.ValidatingWebhookSettings.ServiceName+".default"); err != nil {
		fmt.Fprintln(os.Stderr, "certificates:", err)
		os.Exit(2)
	}
	of, err := os.OpenFile(*out, os.O_APPEND|os.O_WRONLY|os.O_CREATE, 0o644)
	if err != nil {
		fmt.Fprintln(os.Stderr, err)
		os.Exit(2)
	}
	e := &env{work: tmp, hookbin: *hookbin, certs: certs}
	for n := supervise.Skip(); n < len(cases); n++ {
		r := e.run(n, cases[n])
		if r.OK {
			r.Obs = nil
		}
		b, _ := json.Marshal(r)
		of.Write(append(b, '\n'))
	}
	e.close()
	of.Close()
	os.RemoveAll(tmp)
}
