//go:build verif

package main

import (
	"context"
	"fmt"
	"os"
	"path/filepath"
	"runtime/debug"

	"github.com/deckhouse/deckhouse/pkg/log"

	"github.com/flant/shell-operator/pkg/hook"
	"github.com/flant/shell-operator/pkg/hook/controller"
	"github.com/flant/shell-operator/pkg/hook/task_metadata"
	htypes "github.com/flant/shell-operator/pkg/hook/types"
	objectpatch "github.com/flant/shell-operator/pkg/kube/object_patch"
	metricstorage "github.com/flant/shell-operator/pkg/metric_storage"
	shell_operator "github.com/flant/shell-operator/pkg/shell-operator"
	"github.com/flant/shell-operator/pkg/task"
)

// Hook mode: the stream reaches the patch code the way it does in production. A real hook process (a two-line
// shell script) copies the rendered file to $KUBERNETES_PATCH_PATH; the REAL ShellOperator.handleRunHook
// (through the forwarding shim VerifHandleRunHook in pkg/shell-operator/verif_export.go) runs it, reads the
// file back, parses, and - only if parsing succeeded - executes the operations with the operator's
// ObjectPatcher. The decision "parse error => nothing is executed" is therefore the repository's, not ours.

const hookScript = `#!/bin/sh
cat "$0.patch" > "$KUBERNETES_PATCH_PATH"
`

type hookRunnerPool struct {
	dir     string
	runners []*hookRunner
}

type hookRunner struct {
	dir     string
	script  string
	hook    *hook.Hook
	storage *metricstorage.MetricStorage
	hookSt  *metricstorage.MetricStorage
}

func newHookRunnerPool(n int) (*hookRunnerPool, error) {
	dir, err := os.MkdirTemp("", "verif-c13-hooks.")
	if err != nil {
		return nil, err
	}
	p := &hookRunnerPool{dir: dir}
	for i := 0; i < n; i++ {
		d := filepath.Join(dir, fmt.Sprintf("w%d", i))
		if err := os.MkdirAll(filepath.Join(d, "tmp"), 0o755); err != nil {
			return nil, err
		}
		script := filepath.Join(d, "hook.sh")
		if err := os.WriteFile(script, []byte(hookScript), 0o755); err != nil {
			return nil, err
		}
		h := hook.NewHook("c13-hook", script, false, false, "", log.NewNop())
		h.WithTmpDir(filepath.Join(d, "tmp"))
		h.WithHookController(controller.NewHookController())
		p.runners = append(p.runners, &hookRunner{
			dir: d, script: script, hook: h,
			storage: metricstorage.NewMetricStorage(context.Background(), "verif_", true, log.NewNop()),
			hookSt:  metricstorage.NewMetricStorage(context.Background(), "verif_hook_", true, log.NewNop()),
		})
	}
	return p, nil
}

func (p *hookRunnerPool) Close() {
	if p != nil {
		os.RemoveAll(p.dir)
	}
}

func (p *hookRunnerPool) runner(i int) executor { return p.runners[i] }

func (r *hookRunner) mode() string { return "hook" }

func (r *hookRunner) run(stream []byte, c *cluster) (o outcome) {
	o.NErr = -1
	defer func() {
		if rec := recover(); rec != nil {
			o.Panic = fmt.Sprintf("%v\n%s", rec, debug.Stack())
			o.PanicOrigin, o.PanicWhere = classifyPanic(o.Panic)
			o.Failed = true
		}
	}()
	if err := os.WriteFile(r.script+".patch", stream, 0o644); err != nil {
		panic(err)
	}
	op := shell_operator.NewShellOperator(context.Background(), shell_operator.WithLogger(log.NewNop()))
	op.MetricStorage = r.storage
	op.HookMetricStorage = r.hookSt
	op.ObjectPatcher = objectpatch.NewObjectPatcher(c.wire, log.NewNop())
	meta := task_metadata.HookMetadata{HookName: r.hook.Name, BindingType: htypes.OnStartup}
	t := task.NewTask("HookRun")
	err := op.VerifHandleRunHook(t, r.hook, meta, log.NewNop(), map[string]string{}, map[string]string{})
	if err != nil {
		o.Err = err.Error()
		o.Failed = true
	}
	return o
}
