//go:build verif

package main

import (
	"encoding/json"
	"errors"
	"fmt"
	"reflect"
	"runtime/debug"
	"sort"
	"strings"

	"github.com/deckhouse/deckhouse/pkg/log"
	"github.com/hashicorp/go-multierror"

	objectpatch "github.com/flant/shell-operator/pkg/kube/object_patch"
)

// outcome of one run of the real code on one rendering.
type outcome struct {
	ParseErr    string // direct mode: error of ParseOperations
	Err         string // error the execution returned ("" = success)
	Failed      bool
	NErr        int // number of aggregated operation errors, -1 = not observable in this mode
	Panic       string
	PanicOrigin string // repo | fake | harness
	PanicWhere  string
	State       map[string][]string
	Calls       [][]string
	Ops         []string // JSON-normalised operations (direct mode)
	RawOps      []string
}

type executor interface {
	run(stream []byte, c *cluster) outcome
	mode() string
}

func setup() {
	log.SetDefaultLevel(log.LevelFatal)
	// GetSchema fills a package-level cache without a lock on first use
	objectpatch.GetSchema("v0")
}

// classifyPanic attributes a recovered panic to the first frame (from the panic site outwards) that belongs to
// the fake cluster machinery, to the repository, or to this harness.
func classifyPanic(stack string) (origin, where string) {
	lines := strings.Split(stack, "\n")
	seenPanic := false
	for _, l := range lines {
		if strings.HasPrefix(l, "panic(") {
			seenPanic = true
			continue
		}
		if !seenPanic || strings.HasPrefix(l, "\t") {
			continue
		}
		fn := l
		if i := strings.LastIndex(fn, "("); i > 0 {
			fn = fn[:i]
		}
		switch {
		case strings.HasPrefix(l, "k8s.io/client-go/testing."), strings.HasPrefix(l, "k8s.io/client-go/dynamic/fake."),
			strings.HasPrefix(l, "github.com/flant/kube-client/fake."):
			return "fake", fn
		case strings.HasPrefix(l, "github.com/flant/shell-operator/"):
			fn = strings.TrimPrefix(fn, "github.com/flant/shell-operator/")
			for strings.HasSuffix(fn, ".func1") || strings.HasSuffix(fn, ".func2") {
				fn = fn[:len(fn)-6]
			}
			if i := strings.LastIndex(fn, "."); i >= 0 {
				fn = fn[i+1:]
			}
			return "repo", fn
		case strings.HasPrefix(l, "main."):
			return "harness", fn
		}
	}
	return "unknown", ""
}

// trimStack keeps the panic value and the frames from the innermost panic() outwards.
func trimStack(p string) string {
	head := p
	if i := strings.Index(p, "\n"); i >= 0 {
		head = p[:i]
	}
	if i := strings.LastIndex(p, "\npanic("); i >= 0 {
		return head + p[i:]
	}
	return p
}

type directExecutor struct{}

func (directExecutor) mode() string { return "direct" }

// run = what handleRunHook does with the file contents: ParseOperations, return on error, ExecuteOperations.
func (directExecutor) run(stream []byte, c *cluster) (o outcome) {
	o.NErr = 0
	defer func() {
		if r := recover(); r != nil {
			o.Panic = fmt.Sprintf("%v\n%s", r, debug.Stack())
			o.PanicOrigin, o.PanicWhere = classifyPanic(o.Panic)
			o.Failed = true
		}
	}()
	ops, perr := objectpatch.ParseOperations(stream)
	for _, op := range ops {
		n, r := describe(op)
		o.Ops = append(o.Ops, n)
		o.RawOps = append(o.RawOps, r)
	}
	if perr != nil {
		o.ParseErr = perr.Error()
		o.Err = o.ParseErr
		o.Failed = true
		return o
	}
	patcher := objectpatch.NewObjectPatcher(c.wire, log.NewNop())
	err := patcher.ExecuteOperations(ops)
	if err != nil {
		o.Err = err.Error()
		o.Failed = true
		o.NErr = 1
		var me *multierror.Error
		if errors.As(err, &me) {
			o.NErr = len(me.Errors)
		}
	}
	return o
}

// ---------------------------------------------------------------------------------------------------------

func keysOf(m map[string][]string) []string {
	var ks []string
	for k := range m {
		ks = append(ks, k)
	}
	sort.Strings(ks)
	return ks
}

func sameState(a, b map[string][]string) bool {
	if len(a) != len(b) {
		return false
	}
	for k, x := range a {
		y, ok := b[k]
		if !ok || len(x) != len(y) {
			return false
		}
		for i := range x {
			if x[i] != y[i] {
				return false
			}
		}
	}
	return true
}

func js(v any) string {
	b, _ := json.Marshal(v)
	return string(b)
}

func short(s string, n int) string {
	s = strings.Join(strings.Fields(s), " ")
	if len(s) > n {
		return s[:n] + "..."
	}
	return s
}

func policyOf(op string) string {
	switch op {
	case "Delete":
		return "Foreground"
	case "DeleteInBackground":
		return "Background"
	case "DeleteNonCascading":
		return "Orphan"
	}
	return ""
}

// declares: may document d legitimately cause this mutating call?
func declares(d Doc, c []string) bool {
	verb, name, sub, pol := c[0], c[1], c[2], c[3]
	if d.Key != name || d.Fault != "none" {
		return false
	}
	switch {
	case isDelete(d.Op):
		return verb == "delete" && sub == "" && pol == policyOf(d.Op)
	case isCreate(d.Op):
		return sub == "" && (verb == "create" || (verb == "update" || verb == "patch") && d.Op == "CreateOrUpdate")
	default:
		return (verb == "patch" || verb == "update") && sub == d.Sub
	}
}

type runner struct {
	c      *Case
	ex     executor
	docs   []map[string]any
	execs  int
	keys   []string
	result *Result
}

func (r *runner) render(syn string, docs []map[string]any) ([]byte, error) {
	if syn == "json" {
		return renderJSON(docs, r.c.ID), nil
	}
	return renderYAML(docs, r.c.ID)
}

func (r *runner) exec(syn string, docs []map[string]any, state map[string][]string) (outcome, error) {
	text, err := r.render(syn, docs)
	if err != nil {
		return outcome{}, err
	}
	cl, err := newCluster(state)
	if err != nil {
		return outcome{}, err
	}
	o := r.ex.run(text, cl)
	r.execs++
	o.State, err = cl.state(r.keys)
	if err != nil {
		return o, err
	}
	o.Calls = cl.callLists()
	return o, nil
}

func firstFault(c *Case) Doc {
	for _, d := range c.Stream {
		if d.Fault != "none" {
			return d
		}
	}
	return Doc{}
}

func family(op string) string {
	switch {
	case isCreate(op):
		return "create"
	case isDelete(op):
		return "delete"
	}
	return op
}

// diagnose a valid stream whose outcome is wrong: run every document alone from the state the reference
// semantics has before it (TLC's trace), to name the operation whose own effect is wrong; when every single
// step is right the fault is in the sequencing.
func (r *runner) diagnose(syn string) (string, string) {
	c := r.c
	for i, d := range c.Stream {
		pre := c.Init
		if i > 0 {
			pre = c.Trace[i-1]
		}
		o, err := r.exec(syn, r.docs[i:i+1], pre)
		if err != nil {
			return "", ""
		}
		if o.Panic != "" {
			continue
		}
		if o.ParseErr != "" {
			return "valid-rejected/" + d.Op + "/" + d.Form, fmt.Sprintf("document %d (%s) alone is rejected: %s", i+1, js(d), short(o.ParseErr, 300))
		}
		if !sameState(o.State, c.Trace[i]) {
			return "effect/" + d.Op, fmt.Sprintf("document %d (%s) alone on %s leaves %s, documented effect gives %s", i+1, js(d), js(pre), js(o.State), js(c.Trace[i]))
		}
		if o.Failed != c.Errs[i] {
			return "effect/" + d.Op + "/error", fmt.Sprintf("document %d (%s) alone on %s: error=%v (%s), documented: error=%v", i+1, js(d), js(pre), o.Failed, short(o.Err, 200), c.Errs[i])
		}
	}
	return "sequence", "every document alone has its documented effect; the stream as a whole does not (order / number of applications)"
}

func runCase(c *Case, ex executor, texts bool) (res Result) {
	res = Result{Case: c.ID, OK: true, Mode: ex.mode()}
	r := &runner{c: c, ex: ex, keys: keysOf(c.Init), result: &res}
	defer func() {
		res.Executed = r.execs
		if rec := recover(); rec != nil {
			res.OK = false
			res.Sig = "HARNESS/panic"
			res.Detail = fmt.Sprintf("%v\n%s", rec, debug.Stack())
		}
	}()
	for i, d := range c.Stream {
		r.docs = append(r.docs, document(d, i))
	}
	fail := func(sig, detail string) Result {
		res.OK = false
		res.Sig = "C13/" + sig
		res.Detail = detail
		jt, _ := r.render("json", r.docs)
		yt, _ := r.render("yaml", r.docs)
		res.JSONText, res.YAMLText = string(jt), string(yt)
		return res
	}
	if texts {
		jt, _ := r.render("json", r.docs)
		yt, _ := r.render("yaml", r.docs)
		res.JSONText, res.YAMLText = string(jt), string(yt)
	}

	outs := map[string]outcome{}
	for _, syn := range []string{"json", "yaml"} {
		o, err := r.exec(syn, r.docs, c.Init)
		if err != nil {
			res.OK = false
			res.Sig = "HARNESS/setup"
			res.Detail = err.Error()
			return res
		}
		outs[syn] = o
	}

	for _, syn := range []string{"json", "yaml"} {
		o := outs[syn]
		// 0. crash of the code under test
		if o.Panic != "" {
			switch o.PanicOrigin {
			case "repo":
				return fail("panic/"+o.PanicWhere+"/"+syn, fmt.Sprintf("the %s stream makes %s panic: %s", syn, o.PanicWhere, short(trimStack(o.Panic), 1500)))
			case "fake":
				res.Notes = append(res.Notes, fmt.Sprintf("DIVERGENCE fake-cluster artefact (panic inside the test double at %s) on the %s stream of case %d; not attributed to the code under test", o.PanicWhere, syn, c.ID))
				return res
			default:
				res.OK = false
				res.Sig = "HARNESS/panic-" + o.PanicOrigin
				res.Detail = short(o.Panic, 1500)
				return res
			}
		}
		if !c.Valid {
			// 1. AllOrNothingValidation
			f := firstFault(c)
			cls := f.Fault + "/" + family(f.Op)
			if !o.Failed {
				return fail("invalid-accepted/"+cls+"/"+syn, fmt.Sprintf("stream with an invalid document (%s) did not fail; cluster %s -> %s", js(f), js(c.Init), js(o.State)))
			}
			if !sameState(o.State, c.Init) {
				return fail("invalid-partially-applied/"+cls+"/"+syn, fmt.Sprintf("stream with an invalid document (%s) failed (%s) but changed the cluster: %s -> %s", js(f), short(o.Err, 200), js(c.Init), js(o.State)))
			}
			continue
		}
		// 2. InOrderOnce
		if o.ParseErr != "" {
			sig, det := r.diagnose(syn)
			if !strings.HasPrefix(sig, "valid-rejected/") {
				sig, det = "valid-rejected/stream", "the stream is rejected although every document alone is accepted"
			}
			return fail(sig+"/"+syn, det+"; "+short(o.ParseErr, 300))
		}
		if !sameState(o.State, c.Final) {
			sig, det := r.diagnose(syn)
			if sig == "" {
				sig = "final-state"
			}
			return fail(sig+"/"+syn, fmt.Sprintf("final cluster %s, reference semantics gives %s (from %s); %s", js(o.State), js(c.Final), js(c.Init), det))
		}
		if o.Failed == c.OK {
			sig, det := r.diagnose(syn)
			if sig == "" || sig == "sequence" {
				sig = "result"
			}
			return fail(sig+"/"+syn, fmt.Sprintf("execution failed=%v (%s), reference semantics: ok=%v with %d failing operation(s); %s", o.Failed, short(o.Err, 300), c.OK, c.NErr, det))
		}
		if o.NErr >= 0 && o.NErr != c.NErr {
			return fail("error-count/"+syn, fmt.Sprintf("%d operation error(s) aggregated, reference semantics has %d failing operation(s) (every operation runs, errors are collected): %s", o.NErr, c.NErr, short(o.Err, 400)))
		}
		// 3. documented per-operation attributes visible only on the wire: propagation policy, subresource
		for _, call := range o.Calls {
			okc := false
			for _, d := range c.Stream {
				if declares(d, call) {
					okc = true
					break
				}
			}
			if !okc {
				return fail("call/undeclared/"+call[0]+"/"+syn, fmt.Sprintf("API call %v (verb, name, subresource, propagationPolicy) is not what any document of the stream asks for: %s", call, js(c.Stream)))
			}
		}
		for i, d := range c.Stream {
			if !c.Changes[i] {
				continue
			}
			found := false
			for _, call := range o.Calls {
				if declares(d, call) {
					found = true
					break
				}
			}
			if !found {
				what := "call/missing/" + d.Op
				if isDelete(d.Op) {
					what = "propagation/" + d.Op
				} else if !isCreate(d.Op) && d.Sub != "" {
					what = "subresource/" + d.Op
				}
				return fail(what+"/"+syn, fmt.Sprintf("document %d (%s) changes the object but no API call with its subresource / propagation policy was made; calls: %v", i+1, js(d), o.Calls))
			}
		}
		if !reflect.DeepEqual(o.Calls, c.Calls) && !(len(o.Calls) == 0 && len(c.Calls) == 0) {
			res.Notes = append(res.Notes, fmt.Sprintf("DIVERGENCE api-calls: the %s stream of case %d issued %v, the pipeline model predicts %v", syn, c.ID, o.Calls, c.Calls))
		}
	}
	res.CallsMatch = len(res.Notes) == 0

	// 4. SyntaxAgnostic
	j, y := outs["json"], outs["yaml"]
	if ex.mode() == "direct" {
		if len(j.Ops) != len(y.Ops) {
			return fail("json-yaml-ops/count", fmt.Sprintf("JSON stream parses to %d operation(s), YAML stream to %d", len(j.Ops), len(y.Ops)))
		}
		for i := range j.Ops {
			if j.Ops[i] != y.Ops[i] {
				return fail("json-yaml-ops/"+c.Stream[i].Op, fmt.Sprintf("operation %d differs: JSON %s / YAML %s", i+1, short(j.Ops[i], 500), short(y.Ops[i], 500)))
			}
			if j.RawOps[i] != y.RawOps[i] {
				res.NumTypeDiff = true
			}
		}
	}
	if j.Failed != y.Failed || !sameState(j.State, y.State) {
		return fail("json-yaml-outcome", fmt.Sprintf("JSON: failed=%v %s; YAML: failed=%v %s", j.Failed, js(j.State), y.Failed, js(y.State)))
	}
	return res
}
