//go:build verif

package main

import (
	"context"
	"encoding/json"
	"fmt"
	"sync"

	"github.com/flant/kube-client/fake"
	metav1 "k8s.io/apimachinery/pkg/apis/meta/v1"
	"k8s.io/apimachinery/pkg/apis/meta/v1/unstructured"
	"k8s.io/apimachinery/pkg/api/errors"
	"k8s.io/apimachinery/pkg/runtime"
	"k8s.io/apimachinery/pkg/runtime/schema"
	"k8s.io/apimachinery/pkg/types"
	"k8s.io/client-go/dynamic"

	klient "github.com/flant/kube-client/client"
)

// call is one mutating API call as seen on the wire.
type call struct {
	Verb, Name, Sub, Policy string
}

func (c call) list() []string { return []string{c.Verb, c.Name, c.Sub, c.Policy} }

// wireClient is the kube client handed to the ObjectPatcher: the fake cluster's client whose dynamic interface
// behaves like a real client in one respect the fake does not: objects sent with Create/Update are serialised
// to JSON (exactly what client-go's dynamic client does before the request leaves the process) and the fake
// receives the decoded copy. The fake's own habit of deep-copying the caller's Go value (client-go/testing
// Fake.Invokes, ObjectTracker.add) panics on Go `int`s - an artefact a real API server cannot have. With the
// wire in between, a `cannot deep copy` panic can only come from the code under test. Mutating calls are recorded.
type wireClient struct {
	*klient.Client
	mu    sync.Mutex
	calls []call
}

func (w *wireClient) Dynamic() dynamic.Interface {
	return &wireDynamic{Interface: w.Client.Dynamic(), w: w}
}

func (w *wireClient) record(c call) {
	w.mu.Lock()
	w.calls = append(w.calls, c)
	w.mu.Unlock()
}

type wireDynamic struct {
	dynamic.Interface
	w *wireClient
}

func (d *wireDynamic) Resource(gvr schema.GroupVersionResource) dynamic.NamespaceableResourceInterface {
	return &wireNsRes{NamespaceableResourceInterface: d.Interface.Resource(gvr), w: d.w}
}

type wireNsRes struct {
	dynamic.NamespaceableResourceInterface
	w *wireClient
}

func (r *wireNsRes) Namespace(ns string) dynamic.ResourceInterface {
	return &wireRes{ResourceInterface: r.NamespaceableResourceInterface.Namespace(ns), w: r.w}
}

type wireRes struct {
	dynamic.ResourceInterface
	w *wireClient
}

func sub(subresources []string) string {
	s := ""
	for i, x := range subresources {
		if i > 0 {
			s += "/"
		}
		s += x
	}
	return s
}

// overTheWire = runtime.Encode(unstructured.UnstructuredJSONScheme, obj) + decode, as dynamic.Create/Update do.
func overTheWire(obj *unstructured.Unstructured) (*unstructured.Unstructured, error) {
	b, err := runtime.Encode(unstructured.UnstructuredJSONScheme, obj)
	if err != nil {
		return nil, err
	}
	out := &unstructured.Unstructured{}
	if err := out.UnmarshalJSON(b); err != nil {
		return nil, err
	}
	return out, nil
}

func (r *wireRes) Create(ctx context.Context, obj *unstructured.Unstructured, o metav1.CreateOptions, subresources ...string) (*unstructured.Unstructured, error) {
	r.w.record(call{"create", obj.GetName(), sub(subresources), ""})
	sent, err := overTheWire(obj)
	if err != nil {
		return nil, err
	}
	return r.ResourceInterface.Create(ctx, sent, o, subresources...)
}

func (r *wireRes) Update(ctx context.Context, obj *unstructured.Unstructured, o metav1.UpdateOptions, subresources ...string) (*unstructured.Unstructured, error) {
	r.w.record(call{"update", obj.GetName(), sub(subresources), ""})
	sent, err := overTheWire(obj)
	if err != nil {
		return nil, err
	}
	return r.ResourceInterface.Update(ctx, sent, o, subresources...)
}

func (r *wireRes) UpdateStatus(ctx context.Context, obj *unstructured.Unstructured, o metav1.UpdateOptions) (*unstructured.Unstructured, error) {
	r.w.record(call{"update", obj.GetName(), "status", ""})
	sent, err := overTheWire(obj)
	if err != nil {
		return nil, err
	}
	return r.ResourceInterface.UpdateStatus(ctx, sent, o)
}

func (r *wireRes) Patch(ctx context.Context, name string, pt types.PatchType, data []byte, o metav1.PatchOptions, subresources ...string) (*unstructured.Unstructured, error) {
	r.w.record(call{"patch", name, sub(subresources), ""})
	return r.ResourceInterface.Patch(ctx, name, pt, data, o, subresources...)
}

func (r *wireRes) Delete(ctx context.Context, name string, o metav1.DeleteOptions, subresources ...string) error {
	p := ""
	if o.PropagationPolicy != nil {
		p = string(*o.PropagationPolicy)
	}
	r.w.record(call{"delete", name, sub(subresources), p})
	return r.ResourceInterface.Delete(ctx, name, o, subresources...)
}

// cluster = a fresh fake cluster pre-loaded with the abstract state.
type cluster struct {
	fc   *fake.Cluster
	wire *wireClient
	gvr  schema.GroupVersionResource
}

func newCluster(state map[string][]string) (*cluster, error) {
	fc := fake.NewFakeCluster(fake.ClusterVersionV121)
	fc.CreateNs(namespace)
	g := fc.MustFindGVR(apiVersion, kind)
	if g == nil {
		return nil, fmt.Errorf("fake cluster has no %s/%s", apiVersion, kind)
	}
	c := &cluster{fc: fc, wire: &wireClient{Client: fc.Client}, gvr: *g}
	for key, o := range state {
		if len(o) == 0 {
			continue
		}
		b, _ := json.Marshal(object(key, o))
		u := &unstructured.Unstructured{}
		if err := u.UnmarshalJSON(b); err != nil {
			return nil, err
		}
		if _, err := fc.Client.Dynamic().Resource(c.gvr).Namespace(namespace).Create(context.TODO(), u, metav1.CreateOptions{}); err != nil {
			return nil, fmt.Errorf("preload %s: %v", key, err)
		}
	}
	return c, nil
}

// state projects the cluster to key -> <<v, w, n>> | <<>>.
func (c *cluster) state(keys []string) (map[string][]string, error) {
	out := map[string][]string{}
	for _, k := range keys {
		u, err := c.fc.Client.Dynamic().Resource(c.gvr).Namespace(namespace).Get(context.TODO(), k, metav1.GetOptions{})
		if errors.IsNotFound(err) {
			out[k] = []string{}
			continue
		}
		if err != nil {
			return nil, err
		}
		out[k] = project(u)
	}
	return out, nil
}

func (c *cluster) callLists() [][]string {
	c.wire.mu.Lock()
	defer c.wire.mu.Unlock()
	out := make([][]string, 0, len(c.wire.calls))
	for _, x := range c.wire.calls {
		out = append(out, x.list())
	}
	return out
}
