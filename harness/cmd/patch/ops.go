//go:build verif

package main

import (
	"encoding/json"
	"fmt"
	"reflect"
	"sort"
	"strings"
	"unsafe"
)

// describe turns a parsed operation (an unexported struct behind sdkpkg.PatchCollectorOperation) into
// (a) its JSON-normalised description: struct type + every field, payloads normalised through encoding/json
// (numbers compare by value, not by Go type: the Kubernetes unstructured model does the same on the wire),
// (b) the Go-typed description (%#v) used only for the statistic "same after normalisation, different Go types".
// Function-valued fields (the jq closure) are described as set / not set; their behaviour is compared through
// the cluster state after execution. No field name is assumed: a renamed field stays comparable.
func describe(op any) (norm string, raw string) {
	if op == nil {
		return "null", "nil"
	}
	v := reflect.ValueOf(op)
	for v.Kind() == reflect.Ptr || v.Kind() == reflect.Interface {
		if v.IsNil() {
			return "null", "nil"
		}
		v = v.Elem()
	}
	if v.Kind() != reflect.Struct {
		return fmt.Sprintf("%v", op), fmt.Sprintf("%#v", op)
	}
	if !v.CanAddr() {
		c := reflect.New(v.Type()).Elem()
		c.Set(v)
		v = c
	}
	t := v.Type()
	m := map[string]any{"_type": t.Name()}
	var raws []string
	for i := 0; i < v.NumField(); i++ {
		f := v.Field(i)
		f = reflect.NewAt(f.Type(), unsafe.Pointer(f.UnsafeAddr())).Elem()
		name := t.Field(i).Name
		if f.Kind() == reflect.Func {
			m[name] = map[string]any{"func": !f.IsNil()}
			raws = append(raws, fmt.Sprintf("%s:func(%v)", name, !f.IsNil()))
			continue
		}
		val := f.Interface()
		raws = append(raws, name+":"+typed(val))
		b, err := json.Marshal(val)
		if err != nil {
			m[name] = fmt.Sprintf("unmarshalable(%T)", val)
			continue
		}
		var back any
		json.Unmarshal(b, &back)
		m[name] = back
	}
	b, _ := json.Marshal(m)
	sort.Strings(raws)
	return string(b), t.Name() + "{" + strings.Join(raws, ", ") + "}"
}

// typed prints a decoded value with the Go type of every scalar (int(2) vs float64(2)).
func typed(v any) string {
	switch x := v.(type) {
	case nil:
		return "nil"
	case map[string]any:
		ks := make([]string, 0, len(x))
		for k := range x {
			ks = append(ks, k)
		}
		sort.Strings(ks)
		parts := make([]string, 0, len(ks))
		for _, k := range ks {
			parts = append(parts, k+":"+typed(x[k]))
		}
		return "{" + strings.Join(parts, ",") + "}"
	case []any:
		parts := make([]string, 0, len(x))
		for _, e := range x {
			parts = append(parts, typed(e))
		}
		return "[" + strings.Join(parts, ",") + "]"
	default:
		return fmt.Sprintf("%T(%v)", v, v)
	}
}
