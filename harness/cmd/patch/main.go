//go:build verif

// Command patch binds spec/Patch (property C13) to the real kubernetes-patch code of shell-operator.
//
//	patch run -in cases.jsonl -out results.jsonl [-workers N] [-hook]
//
// Every line of -in is one case printed by TLC from spec/Patch (a stream of abstract documents, the initial
// abstract cluster, and the final cluster / success / number of failing operations the reference semantics
// demands). The case is rendered twice - as a JSON stream and as a YAML stream - and each rendering is run
// through the REAL object_patch.ParseOperations + ObjectPatcher.ExecuteOperations (mode direct) or through the
// REAL ShellOperator.handleRunHook with a hook process that writes the file to $KUBERNETES_PATCH_PATH (-hook),
// on a fresh github.com/flant/kube-client/fake cluster pre-loaded with the initial state. Expected values are
// never computed here: the only knowledge on the Go side is how an abstract document is written down
// (render.go) and how a Deployment is projected back to <<v, w, n>>.
package main

import (
	"bufio"
	"encoding/json"
	"flag"
	"fmt"
	"os"
	"sort"
	"sync"
)

type Doc struct {
	Op    string `json:"op"`
	Key   string `json:"key"`
	Var   string `json:"var"`
	Form  string `json:"form"`
	Sub   string `json:"sub"`
	Ign   bool   `json:"ign"`
	Fault string `json:"fault"`
}

type Case struct {
	ID      int                   `json:"id"`
	Init    map[string][]string   `json:"init"`
	Stream  []Doc                 `json:"stream"`
	Valid   bool                  `json:"valid"`
	Final   map[string][]string   `json:"final"`
	OK      bool                  `json:"ok"`
	NErr    int                   `json:"nerr"`
	Changes []bool                `json:"changes"`
	FgDel   int                   `json:"fgdel"`
	Trace   []map[string][]string `json:"trace"`
	Errs    []bool                `json:"errs"`
	Calls   [][]string            `json:"calls"`
}

type Result struct {
	Case   int      `json:"case"`
	OK     bool     `json:"ok"`
	Sig    string   `json:"sig,omitempty"`
	Detail string   `json:"detail,omitempty"`
	Notes  []string `json:"notes,omitempty"` // conformance divergences (not property failures)
	// statistics
	Mode        string `json:"mode"`
	Executed    int    `json:"executed"`     // runs of the real code (2 per case + diagnosis runs)
	NumTypeDiff bool   `json:"numtype_diff"` // JSON and YAML operations equal after JSON normalisation but not in Go types
	CallsMatch  bool   `json:"calls_match"`  // API call sequence equal to the one the pipeline model predicts
	JSONText    string `json:"json_text,omitempty"`
	YAMLText    string `json:"yaml_text,omitempty"`
}

func main() {
	if len(os.Args) < 2 || os.Args[1] != "run" {
		fmt.Fprintln(os.Stderr, "usage: patch run -in cases.jsonl -out results.jsonl [-workers N] [-hook]")
		os.Exit(2)
	}
	fs := flag.NewFlagSet("run", flag.ExitOnError)
	in := fs.String("in", "", "cases (JSON lines)")
	out := fs.String("out", "", "results (JSON lines)")
	workers := fs.Int("workers", 4, "parallel cases")
	hookMode := fs.Bool("hook", false, "run through ShellOperator.handleRunHook with a real hook process")
	texts := fs.Bool("texts", false, "include the rendered streams in every result")
	fs.Parse(os.Args[2:])

	cases, err := readCases(*in)
	if err != nil {
		fmt.Fprintln(os.Stderr, "read cases:", err)
		os.Exit(2)
	}
	setup()
	var hr *hookRunnerPool
	if *hookMode {
		hr, err = newHookRunnerPool(*workers)
		if err != nil {
			fmt.Fprintln(os.Stderr, "hook mode setup:", err)
			os.Exit(2)
		}
		defer hr.Close()
	}

	results := make([]Result, len(cases))
	var wg sync.WaitGroup
	ch := make(chan int)
	for w := 0; w < *workers; w++ {
		wg.Add(1)
		go func(w int) {
			defer wg.Done()
			for i := range ch {
				var ex executor
				if hr != nil {
					ex = hr.runner(w)
				} else {
					ex = directExecutor{}
				}
				results[i] = runCase(&cases[i], ex, *texts)
			}
		}(w)
	}
	// long cases (foreground deletes poll with a 1 s interval) first
	order := make([]int, len(cases))
	for i := range order {
		order[i] = i
	}
	sort.SliceStable(order, func(a, b int) bool { return cases[order[a]].FgDel > cases[order[b]].FgDel })
	for _, i := range order {
		ch <- i
	}
	close(ch)
	wg.Wait()

	f, err := os.Create(*out)
	if err != nil {
		fmt.Fprintln(os.Stderr, err)
		os.Exit(2)
	}
	bw := bufio.NewWriter(f)
	enc := json.NewEncoder(bw)
	for _, r := range results {
		enc.Encode(r)
	}
	bw.Flush()
	f.Close()
}

func readCases(path string) ([]Case, error) {
	f, err := os.Open(path)
	if err != nil {
		return nil, err
	}
	defer f.Close()
	var out []Case
	sc := bufio.NewScanner(f)
	sc.Buffer(make([]byte, 1<<20), 1<<26)
	for sc.Scan() {
		if len(sc.Bytes()) == 0 {
			continue
		}
		var c Case
		if err := json.Unmarshal(sc.Bytes(), &c); err != nil {
			return nil, err
		}
		out = append(out, c)
	}
	return out, sc.Err()
}
