//go:build verif

package main

import (
	"bytes"
	"encoding/json"
	"fmt"
	"strings"

	"k8s.io/apimachinery/pkg/apis/meta/v1/unstructured"
	sigsyaml "sigs.k8s.io/yaml"
)

const (
	namespace  = "default"
	apiVersion = "apps/v1"
	kind       = "Deployment"
)

// object writes down the abstract object <<v, w, n>> named key: labels v and w of a Deployment ("-" = label not
// set), spec.replicas present iff n = "num". Everything else is fixed filling that makes the manifest a legal
// Deployment (strings and one boolean only, so that the integer is the one number in the document).
func object(key string, o []string) map[string]any {
	labels := map[string]any{"v": o[0]}
	if o[1] != "-" {
		labels["w"] = o[1]
	}
	spec := map[string]any{
		"paused":   true,
		"selector": map[string]any{"matchLabels": map[string]any{"app": key}},
		"template": map[string]any{
			"metadata": map[string]any{"labels": map[string]any{"app": key}},
			"spec":     map[string]any{"containers": []any{map[string]any{"name": "c", "image": "registry.example/i:1"}}},
		},
	}
	if o[2] == "num" {
		spec["replicas"] = 2
	}
	return map[string]any{
		"apiVersion": apiVersion,
		"kind":       kind,
		"metadata":   map[string]any{"name": key, "namespace": namespace, "labels": labels},
		"spec":       spec,
	}
}

// template = the object a Create* document with this variant carries (spec/Patch: Tpl).
func template(v string) []string {
	switch v {
	case "1":
		return []string{"1", "1", "none"}
	case "2":
		return []string{"2", "-", "none"}
	case "3":
		return []string{"3", "3", "num"}
	}
	panic("unknown template " + v)
}

// project reads an object back into <<v, w, n>>.
func project(u *unstructured.Unstructured) []string {
	l := u.GetLabels()
	out := []string{"-", "-", "none"}
	if v, ok := l["v"]; ok {
		out[0] = v
	}
	if w, ok := l["w"]; ok {
		out[1] = w
	}
	if _, found, _ := unstructured.NestedFieldNoCopy(u.Object, "spec", "replicas"); found {
		out[2] = "num"
	}
	return out
}

func payload(d Doc) any {
	switch d.Op {
	case "Create", "CreateIfNotExists", "CreateOrUpdate":
		return object(d.Key, template(d.Var))
	case "MergePatch":
		if d.Var == "d" {
			return map[string]any{"metadata": map[string]any{"labels": map[string]any{"w": nil}}}
		}
		return map[string]any{"metadata": map[string]any{"labels": map[string]any{"v": "m"}}}
	case "JSONPatch":
		return []any{map[string]any{"op": "replace", "path": "/metadata/labels/v", "value": "j"}}
	case "JQPatch":
		switch d.Var {
		case "q":
			return `.metadata.labels.v = "q"`
		case "c":
			return `.metadata.labels.w = .metadata.labels.v`
		case "a":
			return `.metadata.labels.v += "x"`
		}
	}
	panic("no payload for " + d.Op + "/" + d.Var)
}

func payloadKey(op string) string {
	switch op {
	case "MergePatch":
		return "mergePatch"
	case "JSONPatch":
		return "jsonPatch"
	case "JQPatch":
		return "jqFilter"
	}
	return "object"
}

func isCreate(op string) bool { return strings.HasPrefix(op, "Create") }
func isDelete(op string) bool { return strings.HasPrefix(op, "Delete") }

// document writes down one abstract document (position pos in the stream) as the key/value structure a hook
// would write; the same structure is then serialised as JSON and as YAML.
func document(d Doc, pos int) map[string]any {
	if d.Op == "Stray" { // not a document: a closing bracket without an opening one, written between the documents
		return map[string]any{strayKey: d.Var}
	}
	m := map[string]any{"operation": d.Op}
	if !isCreate(d.Op) {
		m["apiVersion"] = apiVersion
		m["kind"] = kind
		m["namespace"] = namespace
		m["name"] = d.Key
	}
	if !isDelete(d.Op) {
		p := payload(d)
		switch {
		case d.Op == "JQPatch" || d.Form == "inline":
			m[payloadKey(d.Op)] = p
		case d.Form == "jsonstr":
			b, _ := json.Marshal(p)
			m[payloadKey(d.Op)] = string(b)
		case d.Form == "yamlstr":
			b, _ := sigsyaml.Marshal(p)
			m[payloadKey(d.Op)] = string(b)
		}
	}
	if d.Sub != "" {
		m["subresource"] = d.Sub
	}
	if d.Ign {
		m["ignoreMissingObject"] = true
	}
	switch d.Fault {
	case "none":
	case "noOperation":
		delete(m, "operation")
	case "unknownOp":
		m["operation"] = "Apply"
	case "unknownField":
		if isCreate(d.Op) || isDelete(d.Op) {
			m["comment"] = "managed by hook"
		} else {
			m["ignoreMissing"] = true // a plausible slip for ignoreMissingObject
		}
	case "noPayload":
		delete(m, payloadKey(d.Op))
	case "emptyPayload":
		switch d.Op {
		case "JSONPatch":
			m[payloadKey(d.Op)] = []any{}
		case "JQPatch":
			m[payloadKey(d.Op)] = ""
		default:
			m[payloadKey(d.Op)] = map[string]any{}
		}
	case "badPayload":
		switch {
		case d.Op == "JSONPatch" && pos%2 == 0:
			m[payloadKey(d.Op)] = map[string]any{"op": "replace", "path": "/metadata/labels/v", "value": "j"} // an object, not an array
		case d.Op == "JSONPatch":
			m[payloadKey(d.Op)] = []any{map[string]any{"path": "/metadata/labels/v", "value": "j"}} // first item without "op"
		default:
			m[payloadKey(d.Op)] = 5
		}
	case "noName":
		delete(m, "name")
	case "noKind":
		delete(m, "kind")
	default:
		panic("unknown fault " + d.Fault)
	}
	return m
}

// strayKey marks a stream element that is written as a bare token (spec/Patch: op "Stray", fault strayClose).
const strayKey = "\x00stray"

func strayToken(d map[string]any) (string, bool) {
	t, ok := d[strayKey].(string)
	return t, ok
}

// renderJSON: the documents one after the other (compact or indented, separated by a newline), as `jq -c`/`cat <<EOF`
// in a hook would produce them.
func renderJSON(docs []map[string]any, variant int) []byte {
	var b bytes.Buffer
	for i, d := range docs {
		if t, ok := strayToken(d); ok {
			// `{...}}` (a miscounted brace at the end of the previous document) or the bracket on a line of its own
			if (variant+i)%2 == 0 && b.Len() > 0 {
				b.Truncate(b.Len() - 1)
			}
			b.WriteString(t + "\n")
			continue
		}
		var x []byte
		if (variant+i)%2 == 0 {
			x, _ = json.Marshal(d)
		} else {
			x, _ = json.MarshalIndent(d, "", "  ")
		}
		b.Write(x)
		b.WriteByte('\n')
	}
	return b.Bytes()
}

// renderYAML: block-style YAML documents separated by `---` (the leading separator is optional in YAML).
func renderYAML(docs []map[string]any, variant int) ([]byte, error) {
	var b bytes.Buffer
	for i, d := range docs {
		if t, ok := strayToken(d); ok {
			// the closest YAML analogue: the bracket as a document of its own, or on a line after the previous document
			if (variant+i)%2 == 0 || i == 0 {
				b.WriteString("---\n")
			}
			b.WriteString(t + "\n")
			continue
		}
		if i > 0 || variant%2 == 0 {
			b.WriteString("---\n")
		}
		x, err := sigsyaml.Marshal(d)
		if err != nil {
			return nil, fmt.Errorf("yaml rendering: %v", err)
		}
		b.Write(x)
	}
	return b.Bytes(), nil
}
