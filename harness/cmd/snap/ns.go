//go:build verif

package main

// Mode "ns": spec/Snapshot/SnapshotNs.tla (a binding with a static namespace list AND namespace.labelSelector) bound
// to the real monitor. Namespaces exist as real Namespace objects of the fake cluster while the monitor is not
// started (CreateInformers and the namespace informer's start list them through the client); once it is started a
// namespace that starts/stops matching reaches the monitor through the namespace informer's own callbacks (the fake
// cluster does not honour label selectors on watches, so its watch cannot play that part).

import (
	"context"
	"fmt"
	"os"
	"reflect"
	"sort"
	"strings"
	"sync"
	"time"

	"github.com/deckhouse/deckhouse/pkg/log"
	corev1 "k8s.io/api/core/v1"
	metav1 "k8s.io/apimachinery/pkg/apis/meta/v1"
	"k8s.io/apimachinery/pkg/apis/meta/v1/unstructured"
	"k8s.io/client-go/tools/cache"

	"github.com/flant/kube-client/fake"
	kem "github.com/flant/shell-operator/pkg/kube_events_manager"
	kemtypes "github.com/flant/shell-operator/pkg/kube_events_manager/types"
	metricstorage "github.com/flant/shell-operator/pkg/metric_storage"
)

var nsStatic = []string{} // MonitorConfig.namespaces(): a static list is ignored when namespace.labelSelector is given
var nsAll = []string{"n1", "n2", "n3"}

type nsWorld struct {
	fc      *fake.Cluster
	ms      *metricstorage.MetricStorage
	vm      *kem.VerifMonitor
	ctx     context.Context
	cancel  context.CancelFunc
	nsMatch map[string]bool // cluster side
	realNs  map[string]bool // Namespace objects present in the fake cluster
	phase   string
	mu      sync.Mutex
	off     map[string]bool   // namespaces the monitor has been told to stop watching: late events of their (cancelled) informers do not count
	view    map[string]string // what a hook knows: the Synchronization view + the Events passed on since (nil: not synchronized yet)
}

// onEvent is the monitor's event callback: it applies the event to the hook's view (C01: the view must follow the cluster).
func (w *nsWorld) onEvent(ev kemtypes.KubeEvent) {
	w.mu.Lock()
	defer w.mu.Unlock()
	if w.view == nil {
		return
	}
	for k, o := range ev.Objects {
		if o.Object == nil || strings.HasPrefix(o.Object.GetName(), "zz-probe-") || w.off[o.Object.GetNamespace()] {
			continue
		}
		key := o.Object.GetNamespace() + "/" + o.Object.GetName()
		if k < len(ev.WatchEvents) && ev.WatchEvents[k] == kemtypes.WatchEventDeleted {
			delete(w.view, key)
		} else {
			d, _, _ := unstructured.NestedString(o.Object.Object, "data", "v")
			w.view[key] = d
		}
	}
}

func nsObject(n string) *corev1.Namespace {
	return &corev1.Namespace{ObjectMeta: metav1.ObjectMeta{Name: n, Labels: map[string]string{"w": "1"}}}
}

func (w *nsWorld) newMonitor() {
	if w.cancel != nil {
		w.cancel()
	}
	kem.DefaultFactoryStore.Reset()
	w.ctx, w.cancel = context.WithCancel(context.Background())
	cfg := &kem.MonitorConfig{}
	cfg.Metadata.MonitorId = "mon"
	cfg.Metadata.DebugName = "verif"
	cfg.Metadata.LogLabels = map[string]string{}
	cfg.Metadata.MetricLabels = map[string]string{"hook": "h", "binding": "b", "queue": "q", "kind": "ConfigMap"}
	cfg.Kind, cfg.ApiVersion = "ConfigMap", "v1"
	cfg.KeepFullObjectsInMemory = true
	cfg.Logger = log.NewNop()
	cfg.WithEventTypes(nil)
	cfg.WithNamespaceSelector(&kemtypes.NamespaceSelector{
		LabelSelector: &metav1.LabelSelector{MatchLabels: map[string]string{"w": "1"}},
	})
	w.mu.Lock()
	w.view = nil
	w.off = map[string]bool{}
	w.mu.Unlock()
	w.vm = kem.VerifNewMonitor(w.ctx, w.fc.Client, w.ms, cfg, w.onEvent)
	w.phase = "none"
}

// syncRealNs makes the Namespace objects of the fake cluster equal to nsMatch (only while nothing watches them).
func (w *nsWorld) syncRealNs() error {
	for _, n := range nsAll {
		switch {
		case w.nsMatch[n] && !w.realNs[n]:
			if _, err := w.fc.Client.CoreV1().Namespaces().Create(context.Background(), nsObject(n), metav1.CreateOptions{}); err != nil {
				return err
			}
			w.realNs[n] = true
		case !w.nsMatch[n] && w.realNs[n]:
			if err := w.fc.Client.CoreV1().Namespaces().Delete(context.Background(), n, metav1.DeleteOptions{}); err != nil {
				return err
			}
			delete(w.realNs, n)
		}
	}
	return nil
}

func (w *nsWorld) clusterState() map[string]string {
	out := map[string]string{}
	for _, ns := range nsAll {
		l, err := w.fc.Client.Dynamic().Resource(gvr).Namespace(ns).List(context.Background(), metav1.ListOptions{})
		if err != nil {
			continue
		}
		for _, it := range l.Items {
			d, _, _ := unstructured.NestedString(it.Object, "data", "v")
			out[ns+"/"+it.GetName()] = d
		}
	}
	return out
}

func (w *nsWorld) snapshot() []snapItem {
	var out []snapItem
	for _, o := range w.vm.Monitor().Snapshot() {
		d, _, _ := unstructured.NestedString(o.Object.Object, "data", "v")
		out = append(out, snapItem{o.Object.GetNamespace() + "/" + o.Object.GetName(), d, ""})
	}
	return out
}

// waitWatches: see world.waitWatches; here for the namespaces whose informers have just been started.
func (w *nsWorld) waitWatches(nss []string) error {
	for _, ns := range nss {
		cl := w.fc.Client.Dynamic().Resource(gvr).Namespace(ns)
		seen := false
		var probes []string
		deadline := time.Now().Add(5 * time.Second)
		for n := 0; !seen && time.Now().Before(deadline); n++ {
			name := fmt.Sprintf("zz-probe-%d", n)
			if _, err := cl.Create(context.Background(), obj(ns, name, "probe"), metav1.CreateOptions{}); err == nil {
				probes = append(probes, name)
			}
			for k := 0; k < 10 && !seen; k++ {
				time.Sleep(200 * time.Microsecond)
				for _, s := range w.snapshot() {
					if strings.HasPrefix(s.key, ns+"/zz-probe-") {
						seen = true
					}
				}
			}
		}
		for _, name := range probes {
			cl.Delete(context.Background(), name, metav1.DeleteOptions{})
		}
		if !seen {
			return fmt.Errorf("no probe object of namespace %s reached the monitor", ns)
		}
	}
	deadline := time.Now().Add(5 * time.Second)
	for time.Now().Before(deadline) {
		left := false
		for _, s := range w.snapshot() {
			if strings.Contains(s.key, "/zz-probe-") {
				left = true
			}
		}
		if !left {
			return nil
		}
		time.Sleep(300 * time.Microsecond)
	}
	return fmt.Errorf("probe objects did not leave the snapshot")
}

func strSet(v interface{}) map[string]bool {
	out := map[string]bool{}
	if l, ok := v.([]interface{}); ok {
		for _, x := range l {
			out[fmt.Sprint(x)] = true
		}
	}
	return out
}

func boolMap(v interface{}) map[string]bool {
	out := map[string]bool{}
	if m, ok := v.(map[string]interface{}); ok {
		for k, x := range m {
			b, _ := x.(bool)
			out[k] = b
		}
	}
	return out
}

func keysOf(m map[string]bool) []string {
	out := []string{}
	for k := range m {
		out = append(out, k)
	}
	sort.Strings(out)
	return out
}

func isStatic(n string) bool {
	for _, s := range nsStatic {
		if s == n {
			return true
		}
	}
	return false
}

func replayNsCase(n int, c Case, ms *metricstorage.MetricStorage) Result {
	res := Result{Case: n, OK: true}
	w := &nsWorld{fc: fake.NewFakeCluster(fake.ClusterVersionV121), ms: ms, nsMatch: map[string]bool{}, realNs: map[string]bool{}}
	w.newMonitor()
	defer func() {
		if w.cancel != nil {
			w.cancel()
		}
	}()
	bad := func(i int, sig, d string) Result {
		res.OK, res.Sig, res.Detail, res.BadStep = false, sig, d, i
		return res
	}
	for k, v := range c.Steps[0]["cluster"].(map[string]interface{}) {
		if fmt.Sprint(v) == "none" {
			continue
		}
		ns, name := splitKey(k)
		if _, err := w.fc.Client.Dynamic().Resource(gvr).Namespace(ns).Create(context.Background(), obj(ns, name, fmt.Sprint(v)), metav1.CreateOptions{}); err != nil {
			return bad(0, "DIV/setup", err.Error())
		}
	}
	w.nsMatch = boolMap(c.Steps[0]["nsMatch"])
	if err := w.syncRealNs(); err != nil {
		return bad(0, "DIV/setup", err.Error())
	}
	stale := map[string]bool{} // informers started for a namespace that had stopped matching between AddMonitor and StartMonitor
	divStep, divSig, divDetail := 0, "", ""
	skipHandleNs := 0 // namespace events produced by the namespace informer's own start list: the real informer handles them by itself
	for i := 1; i < len(c.Steps); i++ {
		st := c.Steps[i]
		a := st["act"].([]interface{})
		if os.Getenv("VERIF_DEBUG") != "" {
			fmt.Fprintln(os.Stderr, "step", i, a, "namespaces", w.vm.Namespaces())
		}
		switch fmt.Sprint(a[0]) {
		case "Mutate":
			ns, name, v := fmt.Sprint(a[1]), fmt.Sprint(a[2]), fmt.Sprint(a[3])
			cl := w.fc.Client.Dynamic().Resource(gvr).Namespace(ns)
			cur := w.clusterState()
			var err error
			switch {
			case v == "none":
				err = cl.Delete(context.Background(), name, metav1.DeleteOptions{})
			case cur[ns+"/"+name] == "":
				_, err = cl.Create(context.Background(), obj(ns, name, v), metav1.CreateOptions{})
			default:
				_, err = cl.Update(context.Background(), obj(ns, name, v), metav1.UpdateOptions{})
			}
			if err != nil {
				return bad(i, "DIV/mutate", err.Error())
			}
		case "NsOn":
			w.nsMatch[fmt.Sprint(a[1])] = true
			if w.phase != "started" {
				if err := w.syncRealNs(); err != nil {
					return bad(i, "DIV/namespace", err.Error())
				}
			}
		case "NsOff":
			ns := fmt.Sprint(a[1])
			w.nsMatch[ns] = false
			if wipe, _ := a[2].(bool); wipe {
				cl := w.fc.Client.Dynamic().Resource(gvr).Namespace(ns)
				if l, err := cl.List(context.Background(), metav1.ListOptions{}); err == nil {
					for _, it := range l.Items {
						cl.Delete(context.Background(), it.GetName(), metav1.DeleteOptions{})
					}
				}
			}
			if w.phase != "started" {
				if err := w.syncRealNs(); err != nil {
					return bad(i, "DIV/namespace", err.Error())
				}
			}
		case "AddMonitor":
			if err := w.vm.Monitor().CreateInformers(); err != nil {
				return bad(i, "DIV/add-monitor", err.Error())
			}
			w.phase = "added"
		case "StartMonitor":
			for _, n := range w.vm.Namespaces() {
				if !w.nsMatch[n] {
					stale[n] = true
				}
			}
			w.vm.Monitor().Start(w.ctx)
			w.phase = "started"
			// as the operator does after the Synchronization: the hook has seen the snapshot, events are passed on from now
			w.mu.Lock()
			w.view = map[string]string{}
			for _, it := range w.snapshot() {
				if !strings.Contains(it.key, "/zz-probe-") {
					w.view[it.key] = it.val
				}
			}
			w.mu.Unlock()
			w.vm.Monitor().EnableKubeEventCb()
			// the namespace informer reports every namespace it lists: wait until the monitor has informers for them
			want := []string{}
			for _, n := range nsAll {
				if w.nsMatch[n] && !isStatic(n) {
					want = append(want, n)
				}
			}
			deadline := time.Now().Add(5 * time.Second)
			for {
				have := map[string]bool{}
				for _, n := range w.vm.Namespaces() {
					have[n] = true
				}
				all := true
				for _, n := range want {
					all = all && have[n]
				}
				if all {
					break
				}
				if time.Now().After(deadline) {
					// not a verdict by itself: the quiet-point oracle below says what a hook would see
					if divSig == "" {
						divStep, divSig, divDetail = i, "DIV/namespace-informer", fmt.Sprintf("the monitor has informers for %v, the namespaces matching at the start are %v", w.vm.Namespaces(), want)
					}
					break
				}
				time.Sleep(300 * time.Microsecond)
			}
			// informers started for a namespace that is gone are stopped again by the monitor; wait until their shared
			// informer has really gone (FactoryStore.Stop runs in a goroutine): a namespace that comes back must get a fresh
			// informer, not one whose watch the fake cluster may never have established
			gone := time.Now().Add(3 * time.Second)
			for time.Now().Before(gone) {
				have := map[string]bool{}
				for _, n := range w.vm.Namespaces() {
					have[n] = true
				}
				left := false
				for idx := range kem.VerifFactoryUsers() {
					if !have[idx.Namespace] && !isStatic(idx.Namespace) {
						left = true
					}
				}
				if !left {
					break
				}
				time.Sleep(200 * time.Microsecond)
			}
			skipHandleNs = len(st["pendingNs"].([]interface{}))
			if err := w.waitWatches(append(append([]string{}, nsStatic...), w.vm.Namespaces()...)); err != nil {
				return bad(i, "DIV/watch-not-established", err.Error())
			}
		case "HandleNs":
			if skipHandleNs > 0 {
				skipHandleNs--
				break
			}
			kind, ns := fmt.Sprint(a[1]), fmt.Sprint(a[2])
			before := strings.Join(w.vm.Namespaces(), ",")
			if kind == "add" {
				// informers that were cancelled for this namespace earlier are stopped by a goroutine: wait until their shared
				// informer has gone, so that the namespace gets a fresh one (whose watch the harness can wait for)
				known := false
				for _, n := range w.vm.Namespaces() {
					known = known || n == ns
				}
				if !known {
					gone := time.Now().Add(3 * time.Second)
					for time.Now().Before(gone) {
						left := false
						for idx := range kem.VerifFactoryUsers() {
							left = left || idx.Namespace == ns
						}
						if !left {
							break
						}
						time.Sleep(200 * time.Microsecond)
					}
				}
				w.mu.Lock()
				delete(w.off, ns)
				w.mu.Unlock()
				w.vm.NsAdd(nsObject(ns))
			} else {
				// a cancelled informer keeps delivering what it had pending until FactoryStore.Stop has run: such late events
				// concern a namespace that is out of the binding's scope and are not part of the comparison
				w.mu.Lock()
				w.off[ns] = true
				w.mu.Unlock()
				if i%2 == 1 {
					// a deletion learned from a re-list arrives as a tombstone
					w.vm.NsDelete(cache.DeletedFinalStateUnknown{Key: ns, Obj: nsObject(ns)})
				} else {
					w.vm.NsDelete(nsObject(ns))
				}
				delete(stale, ns)
				// the namespace is out of the binding's scope: what the hook knew about it is not compared any more
				w.mu.Lock()
				for k := range w.view {
					if strings.HasPrefix(k, ns+"/") {
						delete(w.view, k)
					}
				}
				w.mu.Unlock()
			}
			after := w.vm.Namespaces()
			if kind == "add" && strings.Join(after, ",") != before {
				if err := w.waitWatches([]string{ns}); err != nil {
					return bad(i, "DIV/watch-not-established", err.Error())
				}
			}
		case "HandleObj":
		case "Restart":
			w.newMonitor()
			stale = map[string]bool{}
			skipHandleNs = 0
			if err := w.syncRealNs(); err != nil {
				return bad(i, "DIV/namespace", err.Error())
			}
		}
		quiet := fmt.Sprint(st["phase"]) == "started" && len(st["pendingNs"].([]interface{})) == 0
		for _, p := range st["pendingObj"].(map[string]interface{}) {
			if l, ok := p.([]interface{}); ok && len(l) > 0 {
				quiet = false
			}
		}
		if !quiet || w.phase != "started" {
			continue
		}
		res.Quiet++
		want := specCache(st)
		// the property's own expectation: the objects of the namespaces that match the binding now
		cluster := map[string]string{}
		for k, v := range w.clusterState() {
			ns := strings.SplitN(k, "/", 2)[0]
			if isStatic(ns) || w.nsMatch[ns] {
				cluster[k] = v
			}
		}
		// what the code as it is shows in addition: see FixStaleNs in the specification
		clusterAsIs := map[string]string{}
		for k, v := range w.clusterState() {
			ns := strings.SplitN(k, "/", 2)[0]
			if isStatic(ns) || w.nsMatch[ns] || stale[ns] {
				clusterAsIs[k] = v
			}
		}
		// C01: the Synchronization view plus the events passed on since reproduce the matching objects of the cluster
		viewOracle := func() (string, string) {
			var view map[string]string
			deadline := time.Now().Add(1500 * time.Millisecond)
			for {
				view = map[string]string{}
				w.mu.Lock()
				for k, v := range w.view {
					ns := strings.SplitN(k, "/", 2)[0]
					if isStatic(ns) || w.nsMatch[ns] {
						view[k] = v
					}
				}
				w.mu.Unlock()
				if reflect.DeepEqual(view, cluster) || time.Now().After(deadline) {
					break
				}
				time.Sleep(300 * time.Microsecond)
			}
			if !reflect.DeepEqual(view, cluster) {
				return "C01/label-selected-namespaces/events-do-not-reproduce-the-cluster", fmt.Sprintf("Synchronization view + the events passed on give %v, the matching objects of the cluster are %v (quiet after %v)", view, cluster, a)
			}
			return "", ""
		}
		badQ := func(sig, d string) Result {
			if sg, d2 := viewOracle(); sg != "" {
				res.Also = []Also{{sg, d2}}
			}
			return bad(i, sig, d)
		}
		var snap []snapItem
		deadline := time.Now().Add(1500 * time.Millisecond)
		for {
			snap = w.snapshot()
			got := map[string]string{}
			for _, s := range snap {
				got[s.key] = s.val
			}
			if reflect.DeepEqual(got, want) || time.Now().After(deadline) {
				break
			}
			time.Sleep(300 * time.Microsecond)
		}
		got := map[string]string{}
		keys := []string{}
		for _, s := range snap {
			if _, dup := got[s.key]; dup {
				return badQ("C02/duplicate-object", fmt.Sprintf("object %s appears twice in the snapshot", s.key))
			}
			got[s.key] = s.val
			keys = append(keys, s.key)
		}
		if !sort.StringsAreSorted(keys) {
			return badQ("C02/order", fmt.Sprintf("snapshot order %v is not by namespace and name (static and label-selected namespaces)", keys))
		}
		if !reflect.DeepEqual(got, cluster) {
			gone := map[string]bool{}
			window := true
			for k := range got {
				ns := strings.SplitN(k, "/", 2)[0]
				if !isStatic(ns) && !w.nsMatch[ns] {
					gone[ns] = true
					window = window && stale[ns]
				}
			}
			if len(gone) > 0 && window && reflect.DeepEqual(got, clusterAsIs) {
				return badQ("C02/namespace-unmatched-between-AddMonitor-and-StartMonitor", fmt.Sprintf("snapshot %v shows objects of %v: the namespace was listed by AddMonitor and lost its label (or was deleted) before StartMonitor; the namespace informer never knew it, so its informers are never stopped; matching objects %v", got, keysOf(gone), cluster))
			}
			if len(gone) > 0 {
				return badQ("C02/objects-of-a-namespace-that-no-longer-matches", fmt.Sprintf("snapshot %v shows objects of %v, which does not carry the label any more; matching objects %v (quiet after %v)", got, keysOf(gone), cluster, a))
			}
			return badQ("C02/snapshot-differs-from-cluster", fmt.Sprintf("snapshot %v, matching objects of the cluster %v (quiet after %v)", got, cluster, a))
		}
		if sg, d := viewOracle(); sg != "" {
			return bad(i, sg, d)
		}
		if divSig != "" {
			continue
		}
		if !reflect.DeepEqual(got, want) {
			return bad(i, "DIV/cache", fmt.Sprintf("snapshot %v, specification %v", got, want))
		}
		known := strSet(st["known"])
		have := w.vm.Namespaces()
		if len(have) != len(known) {
			// not a verdict by itself: go on, objects that appear in such a namespace will show at a later quiet point
			divStep, divSig, divDetail = i, "DIV/known-namespaces", fmt.Sprintf("the monitor has informers for %v, specification %v", have, st["known"])
		}
	}
	if divSig != "" {
		return bad(divStep, divSig, divDetail)
	}
	return res
}
