//go:build verif

package main

import (
	"bufio"
	"context"
	"encoding/json"
	"fmt"
	"os"
	"sort"
	"strings"
	"time"

	"github.com/deckhouse/deckhouse/pkg/log"
	metav1 "k8s.io/apimachinery/pkg/apis/meta/v1"
	"k8s.io/apimachinery/pkg/apis/meta/v1/unstructured"

	"github.com/flant/kube-client/fake"
	bctx "github.com/flant/shell-operator/pkg/hook/binding_context"
	"github.com/flant/shell-operator/pkg/hook/config"
	"github.com/flant/shell-operator/pkg/hook/controller"
	htypes "github.com/flant/shell-operator/pkg/hook/types"
	kem "github.com/flant/shell-operator/pkg/kube_events_manager"
	kemtypes "github.com/flant/shell-operator/pkg/kube_events_manager/types"
	metricstorage "github.com/flant/shell-operator/pkg/metric_storage"
	schedulemanager "github.com/flant/shell-operator/pkg/schedule_manager"
	"github.com/flant/shell-operator/pkg/verifhook"

	"verifharness/internal/fakewatch"
)

type KeysCase struct {
	Grp  map[string]string   `json:"grp"`
	Inc  map[string][]string `json:"inc"`
	Keys map[string][]string `json:"keys"`
}

// cmdKeys: every topology enumerated by SnapKeys.tla is rendered as a hook configuration, loaded by the real loader,
// wired into a real HookController on a fake cluster, and the keys of `snapshots` produced by UpdateSnapshots for a
// context of each binding are compared with the specification.
func cmdKeys(in, out string) error {
	f, err := os.Open(in)
	if err != nil {
		return err
	}
	of, err := os.Create(out)
	if err != nil {
		return err
	}
	defer of.Close()
	w := bufio.NewWriter(of)
	defer w.Flush()
	kem.DefaultSyncTime = 50 * time.Microsecond
	log.SetDefault(log.NewNop())
	ms := metricstorage.NewMetricStorage(context.Background(), "verif_", true, log.NewNop())
	sc := bufio.NewScanner(f)
	sc.Buffer(make([]byte, 1<<20), 1<<26)
	n := 0
	for sc.Scan() {
		var c KeysCase
		if err := json.Unmarshal(sc.Bytes(), &c); err != nil {
			return err
		}
		r := Result{Case: n, OK: true}
		if sig, d := keysCase(c, ms); sig != "" {
			r.OK, r.Sig, r.Detail = false, sig, d
		}
		b, _ := json.Marshal(r)
		w.Write(append(b, '\n'))
		n++
	}
	return nil
}

func keysCase(c KeysCase, ms *metricstorage.MetricStorage) (string, string) {
	var b strings.Builder
	b.WriteString("configVersion: v1\nkubernetes:\n")
	for _, k := range []string{"k1", "k2"} {
		fmt.Fprintf(&b, "- name: %s\n  apiVersion: v1\n  kind: ConfigMap\n  namespace:\n    nameSelector:\n      matchNames: [\"ns-%s\"]\n", k, k)
		if c.Grp[k] != "" {
			fmt.Fprintf(&b, "  group: %s\n", c.Grp[k])
		}
		if len(c.Inc[k]) > 0 {
			fmt.Fprintf(&b, "  includeSnapshotsFrom: [%s]\n", strings.Join(c.Inc[k], ", "))
		}
	}
	b.WriteString("schedule:\n- name: s1\n  crontab: \"0 0 1 1 *\"\n")
	if c.Grp["s1"] != "" {
		fmt.Fprintf(&b, "  group: %s\n", c.Grp["s1"])
	}
	if len(c.Inc["s1"]) > 0 {
		fmt.Fprintf(&b, "  includeSnapshotsFrom: [%s]\n", strings.Join(c.Inc["s1"], ", "))
	}
	hc := &config.HookConfig{}
	if err := hc.LoadAndValidate([]byte(b.String())); err != nil {
		return "DIV/config-rejected", err.Error() + "\n" + b.String()
	}
	kem.DefaultFactoryStore.Reset()
	fc := fake.NewFakeCluster(fake.ClusterVersionV121)
	wt, _ := fakewatch.Track(fc)
	ctx, cancel := context.WithCancel(context.Background())
	defer cancel()
	mgr := kem.NewKubeEventsManager(ctx, fc.Client, log.NewNop())
	mgr.WithMetricStorage(ms)
	smgr := schedulemanager.NewScheduleManager(ctx, log.NewNop())
	ctl := controller.NewHookController()
	ctl.InitKubernetesBindings(hc.OnKubernetesEvents, mgr, log.NewNop())
	ctl.InitScheduleBindings(hc.Schedules, smgr)
	if err := ctl.HandleEnableKubernetesBindings(func(controller.BindingExecutionInfo) {}); err != nil {
		return "DIV/enable", err.Error()
	}
	if wt != nil {
		for _, ns := range []string{"ns-k1", "ns-k2"} {
			if err := wt.Wait("configmaps", ns, 1, 5*time.Second); err != nil {
				return "DIV/watch", err.Error()
			}
		}
	}
	for _, name := range []string{"k1", "k2", "s1"} {
		bc := bctx.BindingContext{Binding: name}
		if name == "s1" {
			bc.Metadata.BindingType = htypes.Schedule
		} else {
			bc.Metadata.BindingType = htypes.OnKubernetesEvent
			bc.Type = kemtypes.TypeEvent
		}
		out := ctl.UpdateSnapshots([]bctx.BindingContext{bc})
		got := []string{}
		for k := range out[0].Snapshots {
			got = append(got, k)
		}
		sort.Strings(got)
		want := append([]string{}, c.Keys[name]...)
		sort.Strings(want)
		if strings.Join(got, ",") != strings.Join(want, ",") {
			return "C02/snapshot-keys", fmt.Sprintf("binding %s (group %q, includeSnapshotsFrom %v): snapshots has keys %v, must have %v", name, c.Grp[name], c.Inc[name], got, want)
		}
	}
	// one execution, several contexts naming the same bindings: every occurrence of a binding's snapshot must be the
	// same list. If SnapshotsFor is called a second time for a binding within one UpdateSnapshots (it is not, thanks
	// to the per-execution cache), the cluster is changed in between so that the two reads would differ.
	if c.Grp["k1"] != "" && c.Grp["k1"] == c.Grp["k2"] {
		calls := map[string]int{}
		var probeErr error
		verifhook.Set(func(point string, args ...interface{}) {
			if point != "kbc.snapshotsFor" || len(args) == 0 {
				return
			}
			b := fmt.Sprint(args[0])
			calls[b]++
			if calls[b] == 2 {
				ns := "ns-" + b
				before := len(ctl.KubernetesSnapshots()[b])
				calls[b] = -1000 // do not recurse on the reads above
				u := &unstructured.Unstructured{Object: map[string]interface{}{"apiVersion": "v1", "kind": "ConfigMap",
					"metadata": map[string]interface{}{"name": "late", "namespace": ns}, "data": map[string]interface{}{"v": "1"}}}
				if _, err := fc.Client.Dynamic().Resource(gvr).Namespace(ns).Create(context.Background(), u, metav1.CreateOptions{}); err != nil {
					probeErr = err
					return
				}
				for k := 0; k < 5000 && len(ctl.KubernetesSnapshots()[b]) == before; k++ {
					time.Sleep(100 * time.Microsecond)
				}
			}
		})
		bc1 := bctx.BindingContext{Binding: "k1", Type: kemtypes.TypeEvent}
		bc1.Metadata.BindingType = htypes.OnKubernetesEvent
		bc2 := bctx.BindingContext{Binding: "k2", Type: kemtypes.TypeEvent}
		bc2.Metadata.BindingType = htypes.OnKubernetesEvent
		out := ctl.UpdateSnapshots([]bctx.BindingContext{bc1, bc2, bc1})
		verifhook.Set(nil)
		if probeErr != nil {
			return "DIV/probe", probeErr.Error()
		}
		for _, b := range []string{"k1", "k2"} {
			n0 := len(out[0].Snapshots[b])
			for i := 1; i < len(out); i++ {
				if l, has := out[i].Snapshots[b]; has && len(l) != n0 {
					return "C02/snapshot-differs-within-execution", fmt.Sprintf("snapshot of %s has %d objects in context 0 and %d in context %d of the same execution", b, n0, len(l), i)
				}
			}
		}
	}
	return "", ""
}
