//go:build verif

// Command snap binds spec/Snapshot (C02) to the real KubeEventsManager on kube-client's fake cluster: every TLC
// behaviour (cluster mutations around AddMonitor / StartMonitor / Restart) is executed through the public API and,
// at every quiet point of the behaviour, Monitor.Snapshot() is compared with the specification's cache and with the
// fake cluster itself (each object once, ordered by namespace and name, filter applied).
package main

import (
	"bufio"
	"context"
	"encoding/json"
	"flag"
	"fmt"
	"os"
	"reflect"
	"sort"
	"time"

	"github.com/deckhouse/deckhouse/pkg/log"
	metav1 "k8s.io/apimachinery/pkg/apis/meta/v1"
	"k8s.io/apimachinery/pkg/apis/meta/v1/unstructured"
	"k8s.io/apimachinery/pkg/runtime/schema"

	"github.com/flant/kube-client/fake"
	kem "github.com/flant/shell-operator/pkg/kube_events_manager"
	kemtypes "github.com/flant/shell-operator/pkg/kube_events_manager/types"
	metricstorage "github.com/flant/shell-operator/pkg/metric_storage"

	"verifharness/internal/supervise"
)

type State map[string]interface{}
type Case struct {
	Filter bool    `json:"filter"`
	Const  bool    `json:"const"` // the filter selects a field that never changes: every modification takes the "projection unchanged" path
	Steps  []State `json:"steps"`
}
type Result struct {
	Case    int    `json:"case"`
	OK      bool   `json:"ok"`
	Sig     string `json:"sig,omitempty"`
	Detail  string `json:"detail,omitempty"`
	BadStep int    `json:"bad_step,omitempty"`
	Quiet   int    `json:"quiet_points"`
	Also    []Also `json:"also,omitempty"` // further failed oracles at the same point (each belongs to its own property)
}

type Also struct {
	Sig    string `json:"sig"`
	Detail string `json:"detail"`
}

var gvr = schema.GroupVersionResource{Group: "", Version: "v1", Resource: "configmaps"}

func obj(ns, name, v string) *unstructured.Unstructured {
	return &unstructured.Unstructured{Object: map[string]interface{}{"apiVersion": "v1", "kind": "ConfigMap",
		"metadata": map[string]interface{}{"name": name, "namespace": ns}, "data": map[string]interface{}{"v": v, "k": "c"}}}
}

type world struct {
	fc     *fake.Cluster
	mgr    kem.KubeEventsManager
	cancel context.CancelFunc
	cfg    *kem.MonitorConfig
	filter bool
	constF bool
	ms     *metricstorage.MetricStorage
	// keys that the preload listed and that were deleted before the informers started
	preloaded map[string]bool
	ghosts    map[string]bool
	started   bool
}

func (w *world) newManager() {
	if w.cancel != nil {
		w.cancel()
	}
	kem.DefaultFactoryStore.Reset()
	ctx, cancel := context.WithCancel(context.Background())
	w.cancel = cancel
	m := kem.NewKubeEventsManager(ctx, w.fc.Client, log.NewNop())
	m.WithMetricStorage(w.ms)
	w.mgr = m
	cfg := &kem.MonitorConfig{}
	cfg.Metadata.MonitorId = "mon"
	cfg.Metadata.DebugName = "verif"
	cfg.Metadata.LogLabels = map[string]string{}
	cfg.Metadata.MetricLabels = map[string]string{"hook": "h", "binding": "b", "queue": "q", "kind": "ConfigMap"}
	cfg.Kind, cfg.ApiVersion = "ConfigMap", "v1"
	cfg.KeepFullObjectsInMemory = true
	cfg.Logger = log.NewNop()
	cfg.WithEventTypes(nil)
	cfg.WithNamespaceSelector(&kemtypes.NamespaceSelector{NameSelector: &kemtypes.NameSelector{MatchNames: []string{"n1", "n2"}}})
	if w.filter {
		cfg.JqFilter = `{"v": .data.v}`
		if w.constF {
			cfg.JqFilter = `{"k": .data.k}`
		}
	}
	w.cfg = cfg
	w.preloaded, w.ghosts, w.started = map[string]bool{}, map[string]bool{}, false
	// drain events (they are buffered until enabled; nothing enables them here)
	go func() {
		for {
			select {
			case <-m.Ch():
			case <-ctx.Done():
				return
			}
		}
	}()
}

func (w *world) clusterState() map[string]string {
	out := map[string]string{}
	for _, ns := range []string{"n1", "n2"} {
		l, err := w.fc.Client.Dynamic().Resource(gvr).Namespace(ns).List(context.Background(), metav1.ListOptions{})
		if err != nil {
			continue
		}
		for _, it := range l.Items {
			d, _, _ := unstructured.NestedString(it.Object, "data", "v")
			out[ns+"/"+it.GetName()] = d
		}
	}
	return out
}

type snapItem struct{ key, val, fr string }

func (w *world) snapshot() []snapItem {
	var out []snapItem
	for _, o := range w.mgr.GetMonitor("mon").Snapshot() {
		d, _, _ := unstructured.NestedString(o.Object.Object, "data", "v")
		fr := ""
		if m, ok := o.FilterResult.(map[string]interface{}); ok {
			if _, has := m["k"]; has {
				fr = "k=" + fmt.Sprint(m["k"])
			} else {
				fr = fmt.Sprint(m["v"])
			}
		}
		out = append(out, snapItem{o.Object.GetNamespace() + "/" + o.Object.GetName(), d, fr})
	}
	return out
}

// waitWatches: the fake cluster has no resource versions, so a change made between the informer's LIST and the
// moment its WATCH is registered is lost (a real API server replays it). Probe objects are created until one shows
// up in the snapshot of every namespace, then removed again; only then the history goes on.
func (w *world) waitWatches() error {
	for _, ns := range []string{"n1", "n2"} {
		cl := w.fc.Client.Dynamic().Resource(gvr).Namespace(ns)
		seen := false
		var probes []string
		deadline := time.Now().Add(5 * time.Second)
		for n := 0; !seen && time.Now().Before(deadline); n++ {
			name := fmt.Sprintf("zz-probe-%d", n)
			if _, err := cl.Create(context.Background(), obj(ns, name, "probe"), metav1.CreateOptions{}); err == nil {
				probes = append(probes, name)
			}
			for k := 0; k < 10 && !seen; k++ {
				time.Sleep(200 * time.Microsecond)
				for _, s := range w.snapshot() {
					if len(s.key) > len(ns)+9 && s.key[:len(ns)+10] == ns+"/zz-probe-" {
						seen = true
					}
				}
			}
		}
		if !seen {
			return fmt.Errorf("no probe object of namespace %s reached the monitor", ns)
		}
		for _, name := range probes {
			cl.Delete(context.Background(), name, metav1.DeleteOptions{})
		}
	}
	deadline := time.Now().Add(5 * time.Second)
	for time.Now().Before(deadline) {
		left := false
		for _, s := range w.snapshot() {
			if len(s.key) > 12 && s.key[3:12] == "zz-probe-" {
				left = true
			}
		}
		if !left {
			return nil
		}
		time.Sleep(300 * time.Microsecond)
	}
	return fmt.Errorf("probe objects did not leave the snapshot")
}

func specCache(st State) map[string]string {
	out := map[string]string{}
	// TLC prints a function over pairs as a record-like map with tuple keys: <<"n1","a">> :> "v1" ... parsed to dict
	for k, v := range st["cache"].(map[string]interface{}) {
		if fmt.Sprint(v) != "none" {
			out[k] = fmt.Sprint(v)
		}
	}
	return out
}

func replayCase(n int, c Case, ms *metricstorage.MetricStorage) Result {
	res := Result{Case: n, OK: true}
	w := &world{fc: fake.NewFakeCluster(fake.ClusterVersionV121), filter: c.Filter, constF: c.Const, ms: ms}
	w.newManager()
	defer func() {
		if w.cancel != nil {
			w.cancel()
		}
	}()
	bad := func(i int, sig, d string) Result {
		res.OK, res.Sig, res.Detail, res.BadStep = false, sig, d, i
		return res
	}
	// initial cluster
	for k, v := range c.Steps[0]["cluster"].(map[string]interface{}) {
		if fmt.Sprint(v) == "none" {
			continue
		}
		var ns, name string
		fmt.Sscanf(k, "%s", &ns)
		ns, name = splitKey(k)
		if _, err := w.fc.Client.Dynamic().Resource(gvr).Namespace(ns).Create(context.Background(), obj(ns, name, fmt.Sprint(v)), metav1.CreateOptions{}); err != nil {
			return bad(0, "DIV/setup", err.Error())
		}
	}
	phase := "none"
	for i := 1; i < len(c.Steps); i++ {
		st := c.Steps[i]
		a := st["act"].([]interface{})
		switch fmt.Sprint(a[0]) {
		case "Mutate":
			ns, name, v := fmt.Sprint(a[1]), fmt.Sprint(a[2]), fmt.Sprint(a[3])
			cl := w.fc.Client.Dynamic().Resource(gvr).Namespace(ns)
			cur := w.clusterState()
			var err error
			switch {
			case v == "none":
				err = cl.Delete(context.Background(), name, metav1.DeleteOptions{})
				if phase == "added" && w.preloaded[ns+"/"+name] {
					w.ghosts[ns+"/"+name] = true
				}
			case cur[ns+"/"+name] == "":
				_, err = cl.Create(context.Background(), obj(ns, name, v), metav1.CreateOptions{})
				delete(w.ghosts, ns+"/"+name)
			default:
				_, err = cl.Update(context.Background(), obj(ns, name, v), metav1.UpdateOptions{})
			}
			if err != nil {
				return bad(i, "DIV/mutate", err.Error())
			}
		case "AddMonitor":
			for k := range w.clusterState() {
				w.preloaded[k] = true
			}
			if err := w.mgr.AddMonitor(w.cfg); err != nil {
				return bad(i, "DIV/add-monitor", err.Error())
			}
			phase = "added"
		case "StartMonitor":
			w.mgr.StartMonitor("mon")
			phase = "started"
			if err := w.waitWatches(); err != nil {
				return bad(i, "DIV/watch-not-established", err.Error())
			}
		case "Handle":
		case "Restart":
			w.newManager()
			phase = "none"
		}
		quiet := fmt.Sprint(st["phase"]) == "started" && len(st["pending"].([]interface{})) == 0
		if !quiet || phase != "started" {
			continue
		}
		res.Quiet++
		want := specCache(st)
		cluster := w.clusterState()
		var snap []snapItem
		deadline := time.Now().Add(1500 * time.Millisecond)
		for {
			snap = w.snapshot()
			got := map[string]string{}
			for _, s := range snap {
				got[s.key] = s.val
			}
			if reflect.DeepEqual(got, want) || time.Now().After(deadline) {
				break
			}
			time.Sleep(300 * time.Microsecond)
		}
		got := map[string]string{}
		keys := []string{}
		for _, s := range snap {
			if _, dup := got[s.key]; dup {
				return bad(i, "C02/duplicate-object", fmt.Sprintf("object %s appears twice in the snapshot", s.key))
			}
			got[s.key] = s.val
			keys = append(keys, s.key)
			if c.Filter && c.Const {
				if s.fr != "k=c" {
					return bad(i, "C02/filter-not-applied", fmt.Sprintf("object %s: filterResult %q, the filter selects the constant field", s.key, s.fr))
				}
			} else if c.Filter && s.fr != s.val {
				return bad(i, "C02/filter-not-applied", fmt.Sprintf("object %s: filterResult %q, object value %q", s.key, s.fr, s.val))
			}
		}
		if !sort.StringsAreSorted(keys) {
			return bad(i, "C02/order", fmt.Sprintf("snapshot order %v is not by namespace and name", keys))
		}
		// property: once quiet, the snapshot equals the cluster
		if !reflect.DeepEqual(got, cluster) {
			onlyGhosts := true
			for k, v := range got {
				if cluster[k] != v && !(cluster[k] == "" && w.ghosts[k]) {
					onlyGhosts = false
				}
			}
			for k := range cluster {
				if _, ok := got[k]; !ok {
					onlyGhosts = false
				}
			}
			if onlyGhosts {
				return bad(i, "C02/ghost-preloaded-then-deleted-before-start", fmt.Sprintf("snapshot %v, cluster %v: an object listed by AddMonitor and deleted before StartMonitor is still shown", got, cluster))
			}
			return bad(i, "C02/snapshot-differs-from-cluster", fmt.Sprintf("snapshot %v, cluster %v (quiet after %v)", got, cluster, a))
		}
		if !reflect.DeepEqual(got, want) {
			return bad(i, "DIV/cache", fmt.Sprintf("snapshot %v, specification %v", got, want))
		}
	}
	return res
}

func splitKey(k string) (string, string) {
	// keys are printed by the tla parser as e.g. `["n1", "a"]` or `<<"n1", "a">>`; keep letters and digits
	var parts []string
	cur := ""
	for _, r := range k {
		if (r >= 'a' && r <= 'z') || (r >= '0' && r <= '9') {
			cur += string(r)
		} else if cur != "" {
			parts = append(parts, cur)
			cur = ""
		}
	}
	if cur != "" {
		parts = append(parts, cur)
	}
	if len(parts) >= 2 {
		return parts[0], parts[1]
	}
	return k, ""
}

func main() {
	in := flag.String("in", "", "")
	out := flag.String("out", "", "")
	mode := flag.String("mode", "history", "history | ns | keys")
	flag.Parse()
	if *mode == "keys" {
		if err := cmdKeys(*in, *out); err != nil {
			fmt.Fprintln(os.Stderr, "snap keys:", err)
			os.Exit(2)
		}
		return
	}
	f, err := os.Open(*in)
	if err != nil {
		fmt.Fprintln(os.Stderr, err)
		os.Exit(2)
	}
	var cases []Case
	sc := bufio.NewScanner(f)
	sc.Buffer(make([]byte, 1<<20), 1<<28)
	for sc.Scan() {
		var c Case
		if err := json.Unmarshal(sc.Bytes(), &c); err != nil {
			fmt.Fprintln(os.Stderr, err)
			os.Exit(2)
		}
		cases = append(cases, c)
	}
	if !supervise.IsChild() {
		if err := supervise.Run(len(cases), *out, 30*time.Second, func(idx int, why string) interface{} {
			return Result{Case: idx, OK: false, Sig: "C02/crash", Detail: why}
		}); err != nil {
			fmt.Fprintln(os.Stderr, "snap:", err)
			os.Exit(2)
		}
		return
	}
	kem.DefaultSyncTime = 50 * time.Microsecond
	ms := metricstorage.NewMetricStorage(context.Background(), "verif_", true, log.NewNop())
	of, _ := os.OpenFile(*out, os.O_APPEND|os.O_WRONLY|os.O_CREATE, 0o644)
	defer of.Close()
	for n := supervise.Skip(); n < len(cases); n++ {
		var r Result
		if *mode == "ns" {
			r = replayNsCase(n, cases[n], ms)
		} else {
			r = replayCase(n, cases[n], ms)
		}
		b, _ := json.Marshal(r)
		of.Write(append(b, '\n'))
	}
}
