// Command metrics replays TLC-generated histories of hook metric batches (spec/Metrics) on the real
// metric_storage.MetricStorage (private registry) and compares Gatherer.Gather(), projected to the abstract
// registry of the specification, with the registry TLC computed for the state after every batch (C16).
//
// Every history is run three times, once per way the operations can reach SendBatch:
//
//	constructed  operation.MetricOperation values built in Go (Action/Value/Buckets)
//	file         the $METRICS_PATH syntax with "action"/"value", parsed by operation.MetricOperationsFromBytes
//	shortcut     the same file syntax with the deprecated {"add": n} / {"set": n} shortcuts wherever they apply
//
// Nothing about the expected registry is computed here: the only knowledge on this side is how to write an
// abstract operation down in each syntax, how to project a gathered metric family, and how to name the class of
// a difference (signature).
package main

import (
	"bufio"
	"context"
	"encoding/json"
	"flag"
	"fmt"
	"os"
	"sort"
	"strconv"
	"strings"
	"time"

	"github.com/deckhouse/deckhouse/pkg/log"
	dto "github.com/prometheus/client_model/go"

	metricstorage "github.com/flant/shell-operator/pkg/metric_storage"
	"github.com/flant/shell-operator/pkg/metric_storage/operation"

	"verifharness/internal/supervise"
)

const noValue = -1

type Op struct {
	Group   string     `json:"group"`
	Name    string     `json:"name"`
	Action  string     `json:"action"`
	Labels  [][]string `json:"labels"`
	Value   int        `json:"value"` // unit 0.5
	Buckets bool       `json:"buckets"`
	Cut     string     `json:"cut"` // "" | string | colon | labels: the file ends inside this (last) operation
}

type Series struct {
	Name   string     `json:"name"`
	Labels [][]string `json:"labels"`
	Kind   string     `json:"kind"`
	Val    int        `json:"val"` // unit 0.5
	Cnt    int        `json:"cnt"`
	Group  string     `json:"group"`
}

type SKey struct {
	Name   string     `json:"name"`
	Labels [][]string `json:"labels"`
}

type Batch struct {
	Hook  string   `json:"hook"`
	Ops   []Op     `json:"ops"`
	Err   bool     `json:"err"`
	Post  []Series `json:"post"`
	Shape []SKey   `json:"shape"` // ungrouped targets whose label names differ from the first ungrouped use of the name
	Mixed []string `json:"mixed"` // names used both inside and outside groups so far
	Frac  []string `json:"frac"`  // names with a fractional grouped add in this batch
}

type Case struct {
	ID      int     `json:"id"`
	Family  string  `json:"family"`
	Batches []Batch `json:"batches"`
}

type Fail struct {
	Sig       string `json:"sig"`
	Detail    string `json:"detail"`
	Batch     int    `json:"batch"`
	Rendering string `json:"rendering"`
}

type Result struct {
	Case    int    `json:"case"`
	OK      bool   `json:"ok"`
	Sig     string `json:"sig,omitempty"`
	Detail  string `json:"detail,omitempty"`
	Fails   []Fail `json:"fails,omitempty"`
	Batches int    `json:"batches"`  // batches sent and compared, all renderings
	AltOK   int    `json:"alt_ok"`   // batches of the ambiguous class that were rejected as a whole (accepted outcome)
	Applied int    `json:"applied"`  // valid batches compared
	Refused int    `json:"rejected"` // invalid batches compared
}

var renderings = []string{"constructed", "file", "shortcut"}

// ---------------------------------------------------------------------------------------------------------
// abstract operation -> the three concrete syntaxes

func labelsMap(ls [][]string) map[string]string {
	if len(ls) == 0 {
		return nil
	}
	m := map[string]string{}
	for _, p := range ls {
		m[p[0]] = p[1]
	}
	return m
}

func fval(v int) float64 { return float64(v) / 2 }

func fptr(v int) *float64 { f := fval(v); return &f }

func construct(op Op) operation.MetricOperation {
	m := operation.MetricOperation{Name: op.Name, Group: op.Group, Labels: labelsMap(op.Labels)}
	switch op.Action {
	case "both":
		//nolint:staticcheck
		m.Set, m.Add = fptr(op.Value), fptr(op.Value)
	default:
		m.Action = op.Action
		if op.Value != noValue && op.Action != "expire" {
			m.Value = fptr(op.Value)
		}
	}
	if op.Buckets {
		m.Buckets = []float64{1, 2}
	}
	return m
}

func num(v int) string { return strconv.FormatFloat(fval(v), 'g', -1, 64) }

func fileLine(op Op, shortcut bool) string {
	var parts []string
	add := func(k, v string) { parts = append(parts, strconv.Quote(k)+":"+v) }
	if op.Group != "" {
		add("group", strconv.Quote(op.Group))
	}
	if op.Name != "" {
		add("name", strconv.Quote(op.Name))
	}
	switch {
	case op.Action == "both":
		add("set", num(op.Value))
		add("add", num(op.Value))
	case shortcut && (op.Action == "add" || op.Action == "set") && op.Value != noValue:
		add(op.Action, num(op.Value))
	default:
		if op.Action != "" {
			add("action", strconv.Quote(op.Action))
		}
		if op.Value != noValue && op.Action != "expire" {
			add("value", num(op.Value))
		}
	}
	if op.Buckets {
		add("buckets", "[1,2]")
	}
	if len(op.Labels) > 0 {
		b, _ := json.Marshal(labelsMap(op.Labels))
		add("labels", string(b))
	}
	return "{" + strings.Join(parts, ",") + "}"
}

// cutLine writes down an operation the file ends in the middle of: inside a string, right after a colon, or inside
// the labels object (spec/Metrics: cut). What is left is not a JSON document any more.
func cutLine(line, where string) string {
	switch where {
	case "string":
		if i := strings.Index(line, `"name":"`); i >= 0 {
			return line[:i+len(`"name":"`)+1]
		}
	case "colon":
		if i := strings.LastIndex(line, ":"); i >= 0 && !strings.Contains(line, `"labels"`) {
			return line[:i+1]
		}
	case "labels":
		if i := strings.Index(line, `"labels":{`); i >= 0 && strings.HasSuffix(line, "}}") {
			return line[:len(line)-2]
		}
	}
	panic(fmt.Sprintf("cannot cut %q at %q", line, where))
}

func truncated(b Batch) bool { return len(b.Ops) > 0 && b.Ops[len(b.Ops)-1].Cut != "" }

func render(b Batch, how string) ([]operation.MetricOperation, string, error) {
	// a truncated batch exists as a file only: the constructed rendering writes the file, too
	if how == "constructed" && !truncated(b) {
		ops := make([]operation.MetricOperation, 0, len(b.Ops))
		for _, op := range b.Ops {
			ops = append(ops, construct(op))
		}
		return ops, "", nil
	}
	var sb strings.Builder
	for _, op := range b.Ops {
		if op.Cut != "" {
			sb.WriteString(cutLine(fileLine(op, how == "shortcut"), op.Cut)) // the file ends here
			break
		}
		sb.WriteString(fileLine(op, how == "shortcut"))
		sb.WriteString("\n")
	}
	ops, err := operation.MetricOperationsFromBytes([]byte(sb.String()))
	return ops, sb.String(), err
}

// ---------------------------------------------------------------------------------------------------------
// projection of the real registry

type val struct {
	Kind string
	Val  float64
	Cnt  int
}

func keyOf(name string, labels [][]string) string {
	var ls []string
	for _, p := range labels {
		if p[1] == "" { // an empty label value is the same series as the label being absent
			continue
		}
		ls = append(ls, p[0]+"="+strconv.Quote(p[1]))
	}
	sort.Strings(ls)
	return name + "{" + strings.Join(ls, ",") + "}"
}

func project(ms *metricstorage.MetricStorage) (map[string]val, error) {
	mfs, err := ms.Gatherer.Gather()
	out := map[string]val{}
	for _, mf := range mfs {
		for _, m := range mf.GetMetric() {
			var ls [][]string
			for _, l := range m.GetLabel() {
				ls = append(ls, []string{l.GetName(), l.GetValue()})
			}
			k := keyOf(mf.GetName(), ls)
			switch mf.GetType() {
			case dto.MetricType_COUNTER:
				out[k] = val{"counter", m.GetCounter().GetValue(), 0}
			case dto.MetricType_GAUGE:
				out[k] = val{"gauge", m.GetGauge().GetValue(), 0}
			case dto.MetricType_HISTOGRAM:
				out[k] = val{"histogram", m.GetHistogram().GetSampleSum(), int(m.GetHistogram().GetSampleCount())}
			default:
				out[k] = val{mf.GetType().String(), 0, 0}
			}
		}
	}
	return out, err
}

type exp struct {
	val
	Group string
	Name  string
}

func expected(post []Series) map[string]exp {
	out := map[string]exp{}
	for _, s := range post {
		out[keyOf(s.Name, s.Labels)] = exp{val{s.Kind, fval(s.Val), s.Cnt}, s.Group, s.Name}
	}
	return out
}

func sameAs(act map[string]val, want map[string]exp) bool {
	if len(act) != len(want) {
		return false
	}
	for k, w := range want {
		if a, ok := act[k]; !ok || a != w.val {
			return false
		}
	}
	return true
}

func show(act map[string]val) string {
	var ks []string
	for k, v := range act {
		s := fmt.Sprintf("%s %s %v", k, v.Kind, v.Val)
		if v.Kind == "histogram" {
			s += fmt.Sprintf(" n=%d", v.Cnt)
		}
		ks = append(ks, s)
	}
	sort.Strings(ks)
	return "[" + strings.Join(ks, "; ") + "]"
}

func showExp(want map[string]exp) string {
	m := map[string]val{}
	for k, v := range want {
		m[k] = v.val
	}
	return show(m)
}

// ---------------------------------------------------------------------------------------------------------
// signature of a difference

func whyInvalid(op Op) string {
	switch {
	case op.Cut != "":
		return "truncated-in-" + op.Cut
	case op.Action == "":
		return "no-action"
	case op.Action == "both":
		return "set-and-add"
	case op.Action == "bogus":
		return "unknown-action"
	case op.Group == "" && op.Action == "expire":
		return "expire-without-group"
	case op.Group != "" && op.Action == "observe":
		return "observe-in-group"
	case op.Value == noValue && op.Action != "expire":
		return "no-value"
	case op.Action == "observe" && !op.Buckets:
		return "no-buckets"
	case op.Name == "" && op.Action != "expire":
		return "no-name"
	}
	return "other"
}

func invalidClass(b Batch) string {
	// the specification decided that the batch is invalid; name the broken rule for the signature
	for _, op := range b.Ops {
		if w := whyInvalid(op); w != "other" {
			if op.Group != "" {
				return w + "/grouped"
			}
			return w + "/ungrouped"
		}
	}
	return "unknown"
}

func in(xs []string, x string) bool {
	for _, y := range xs {
		if y == x {
			return true
		}
	}
	return false
}

func metricName(key string) string { return key[:strings.Index(key, "{")] }

// classify names the class of each differing series; pre/post are TLC's registries before/after the batch.
func classify(b Batch, how string, pre, post map[string]exp, act map[string]val) map[string]string {
	shape := map[string]bool{}
	for _, k := range b.Shape {
		shape[keyOf(k.Name, k.Labels)] = true
	}
	groups := map[string]bool{}
	for _, op := range b.Ops {
		if op.Group != "" {
			groups[op.Group] = true
		}
	}
	// series the batch names, with the group of the naming operation
	target := map[string]string{}
	for _, op := range b.Ops {
		if op.Action != "expire" && op.Name != "" {
			target[keyOf(op.Name, append(append([][]string{}, op.Labels...), []string{"hook", b.Hook}))] = op.Group
		}
	}
	keys := map[string]bool{}
	for k := range post {
		keys[k] = true
	}
	for k := range act {
		keys[k] = true
	}
	out := map[string]string{} // class -> example
	for k := range keys {
		w, inPost := post[k]
		a, inAct := act[k]
		if inPost && inAct && a == w.val {
			continue
		}
		p, inPre := pre[k]
		tg, named := target[k]
		name := metricName(k)
		var class string
		switch {
		// input classes of known defects first (tags computed by TLC)
		case shape[k]:
			class = "ungrouped-label-names-differ"
		case in(b.Mixed, name):
			class = "name-grouped-and-ungrouped"
		case inPost && inAct && w.Kind == "counter" && w.Group != "" && how == "shortcut" && a.Kind == "counter" && a.Val == 2*w.Val:
			class = "grouped-add-shortcut-doubled"
		case inPost && inAct && w.Kind == "counter" && w.Group != "" && in(b.Frac, name) && a.Kind == "counter":
			class = "grouped-counter-fraction"
		// a series that must not be there
		case !inPost && inPre && groups[p.Group]:
			class = "group-replaced/stale-series"
		case !inPost && named && tg != "":
			class = "group-replaced/expired-series-present"
		case !inPost:
			class = "unexpected-series"
		// a series of a group this batch replaces
		case groups[w.Group] && !inAct:
			class = "group-replaced/series-missing"
		case groups[w.Group] && a.Kind != w.Kind:
			class = "group-replaced/kind"
		case groups[w.Group]:
			class = "group-replaced/value/" + w.Kind
		// an ungrouped series the batch names
		case w.Group == "" && named && !inAct:
			class = "ungrouped/series-missing"
		case w.Group == "" && named && a.Kind != w.Kind:
			class = "ungrouped/kind"
		case w.Group == "" && named:
			class = "ungrouped/value/" + w.Kind
		// everything else had to stay as it was
		case !inAct:
			class = "others-untouched/series-removed"
		default:
			class = "others-untouched/series-changed"
		}
		if _, ok := out[class]; !ok || k < out[class] {
			out[class] = k
		}
	}
	return out
}

// ---------------------------------------------------------------------------------------------------------

func replayCase(c Case) Result {
	r := Result{Case: c.ID, OK: true}
	seen := map[string]bool{}
	fail := func(sig, detail string, i int, how string) {
		r.OK = false
		if seen[sig] {
			return
		}
		seen[sig] = true
		r.Fails = append(r.Fails, Fail{Sig: "C16/" + sig, Detail: detail, Batch: i, Rendering: how})
	}
	for _, how := range renderings {
		ms := metricstorage.NewMetricStorage(context.Background(), "verif_", true, log.NewNop())
		pre := map[string]exp{}
	history:
		for i, b := range c.Batches {
			ops, text, perr := render(b, how)
			input := text
			if how == "constructed" && !truncated(b) {
				input = fmt.Sprintf("%v", ops)
			}
			var err error
			if perr != nil {
				err = perr
			} else {
				err = ms.SendBatch(ops, map[string]string{"hook": b.Hook})
			}
			act, gerr := project(ms)
			post := expected(b.Post)
			r.Batches++
			syntax := how
			if how == "constructed" && truncated(b) {
				syntax = "file (a truncated file cannot be constructed)"
			}
			where := fmt.Sprintf("batch %d of the history (hook %s, %s syntax) %s", i+1, b.Hook, syntax, strings.TrimSpace(strings.ReplaceAll(input, "\n", " ")))
			if gerr != nil {
				fail("gather-error", fmt.Sprintf("%s: Gather() fails afterwards: %v", where, gerr), i, how)
				break history
			}
			switch {
			case b.Err && err == nil:
				fail("atomic-validation/invalid-batch-accepted/"+invalidClass(b),
					fmt.Sprintf("%s: contains an invalid operation but SendBatch returned no error; registry now %s", where, show(act)), i, how)
				break history
			case b.Err:
				r.Refused++
				if !sameAs(act, post) {
					fail("atomic-validation/partially-applied/"+invalidClass(b),
						fmt.Sprintf("%s: rejected (%v) but the registry changed from %s to %s", where, oneLine(err), showExp(pre), show(act)), i, how)
					break history
				}
			case err != nil:
				if len(b.Shape) > 0 && sameAs(act, pre) {
					// An operation whose label names differ from the first use of the name may also be
					// treated as invalid; then the whole batch must be refused, which is what happened.
					r.AltOK++
					break history
				}
				fail("valid-batch-rejected", fmt.Sprintf("%s: every operation is valid but SendBatch failed: %v", where, oneLine(err)), i, how)
				break history
			default:
				r.Applied++
				if !sameAs(act, post) {
					for class, k := range classify(b, how, pre, post, act) {
						w, okw := post[k]
						a, oka := act[k]
						ws, as := "absent", "absent"
						if okw {
							ws = fmt.Sprintf("%s %v (n=%d, group %q)", w.Kind, w.Val, w.Cnt, w.Group)
						}
						if oka {
							as = fmt.Sprintf("%s %v (n=%d)", a.Kind, a.Val, a.Cnt)
						}
						fail(class, fmt.Sprintf("%s: series %s must be %s, registry has %s; registry before %s, required %s, found %s",
							where, k, ws, as, showExp(pre), showExp(post), show(act)), i, how)
					}
					break history
				}
			}
			pre = post
		}
	}
	if !r.OK && len(r.Fails) > 0 {
		r.Sig, r.Detail = r.Fails[0].Sig, r.Fails[0].Detail
	}
	return r
}

func oneLine(err error) string {
	if err == nil {
		return "nil"
	}
	return strings.Join(strings.Fields(err.Error()), " ")
}

func readCases(path string) ([]Case, error) {
	f, err := os.Open(path)
	if err != nil {
		return nil, err
	}
	defer f.Close()
	var out []Case
	sc := bufio.NewScanner(f)
	sc.Buffer(make([]byte, 1<<20), 1<<28)
	for sc.Scan() {
		if len(strings.TrimSpace(sc.Text())) == 0 {
			continue
		}
		var c Case
		if err := json.Unmarshal(sc.Bytes(), &c); err != nil {
			return nil, fmt.Errorf("case %d: %v", len(out), err)
		}
		out = append(out, c)
	}
	return out, sc.Err()
}

func cmdReplay(in, out string) error {
	cases, err := readCases(in)
	if err != nil {
		return err
	}
	if !supervise.IsChild() {
		return supervise.Run(len(cases), out, 30*time.Second, func(idx int, why string) interface{} {
			id := idx
			if idx < len(cases) {
				id = cases[idx].ID
			}
			sig := "C16/crash"
			return Result{Case: id, OK: false, Sig: sig, Detail: why, Fails: []Fail{{Sig: sig, Detail: why}}}
		})
	}
	of, err := os.OpenFile(out, os.O_APPEND|os.O_WRONLY|os.O_CREATE, 0o644)
	if err != nil {
		return err
	}
	defer of.Close()
	w := bufio.NewWriterSize(of, 1<<16)
	for n := supervise.Skip(); n < len(cases); n++ {
		r := replayCase(cases[n])
		b, _ := json.Marshal(r)
		w.Write(append(b, '\n'))
		// the supervisor counts lines to find the case that crashed: keep the file current
		w.Flush()
	}
	return nil
}

func main() {
	// the grouped vault reports through the package-level logger (with a stack dump per message)
	log.SetDefault(log.NewNop())
	if len(os.Args) < 2 {
		fmt.Fprintln(os.Stderr, "usage: metrics replay -in cases.jsonl -out results.jsonl")
		os.Exit(2)
	}
	fs := flag.NewFlagSet(os.Args[1], flag.ExitOnError)
	in := fs.String("in", "", "input file")
	out := fs.String("out", "", "output file")
	fs.Parse(os.Args[2:])
	var err error
	switch os.Args[1] {
	case "replay":
		err = cmdReplay(*in, *out)
	default:
		err = fmt.Errorf("unknown command")
	}
	if err != nil {
		fmt.Fprintln(os.Stderr, "metrics:", err)
		os.Exit(2)
	}
}
