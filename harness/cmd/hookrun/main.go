//go:build verif

// Command hookrun binds spec/HookRun (C12, hook execution contract) to the real code.
//
//	hookrun -in cases.jsonl -out results.jsonl -hookbin path
//
// A case is one or two planned executions (hook, queue, binding contexts of the task, exit code and a class per
// output file, with the result TLC computed for the plan) and a schedule of the protocol steps chosen by TLC
// (Plan / Prepare / ExecStart / ExecExit / Parse / Apply / Cleanup per execution, with the executions whose
// temporary files must all exist / must all be gone after each step).
//
// Every case runs on the REAL code: a ShellOperator assembled on a fake cluster (opfix), a HookRun task per
// execution handed to the production task handler (taskHandler -> taskHandleHookRun -> handleRunHook ->
// hook.Hook.Run -> executor) on its own goroutine, like the worker of its queue would; the hook process is the
// hookbin helper in block mode: it records what it sees (cwd, environment, state of the files, content of the
// binding-context file, listing of the temp directory) and waits until the harness hands it the scripted
// outputs and exit code.
//
// Steering: ExecStart(e) starts the handler of e and waits for its process; ExecExit(e) releases the process and
// waits until it is gone; Cleanup(e) waits for the handler to return. Prepare/Parse/Apply happen inside the
// handler and cannot be held; the oracles do not depend on their exact position.
//
// Nothing about the expected outcome is computed here. The Go side knows how to write an abstract output class
// down as file content, how to observe an effect (object on the cluster, metric in the hook metric storage,
// response in the task properties) and how to name the class of a difference (signature).
package main

import (
	"bufio"
	"context"
	"encoding/json"
	"flag"
	"fmt"
	"net/http/httptest"
	"os"
	"path/filepath"
	"reflect"
	"sort"
	"strings"
	"time"

	metav1 "k8s.io/apimachinery/pkg/apis/meta/v1"
	"k8s.io/apimachinery/pkg/apis/meta/v1/unstructured"
	"k8s.io/apimachinery/pkg/runtime/schema"

	bctx "github.com/flant/shell-operator/pkg/hook/binding_context"
	"github.com/flant/shell-operator/pkg/hook/task_metadata"
	htypes "github.com/flant/shell-operator/pkg/hook/types"
	kemtypes "github.com/flant/shell-operator/pkg/kube_events_manager/types"
	metricstorage "github.com/flant/shell-operator/pkg/metric_storage"
	"github.com/flant/shell-operator/pkg/task"
	"github.com/flant/shell-operator/pkg/webhook/admission"
	"github.com/flant/shell-operator/pkg/webhook/conversion"

	"verifharness/internal/opfix"
	"verifharness/internal/supervise"
)

type CtxDesc struct {
	Binding    string `json:"binding"`
	Type       string `json:"type"`
	WatchEvent string `json:"watchEvent"`
	Object     string `json:"object"`
}

type Exec struct {
	Hook    string            `json:"hook"`
	Cwd     string            `json:"cwd"`
	Queue   string            `json:"queue"`
	Exit    int               `json:"exit"`
	Out     map[string]string `json:"out"`
	Ctxs    []CtxDesc         `json:"ctxs"`
	Status  string            `json:"status"`
	Must    []string          `json:"must"`
	MustNot []string          `json:"mustnot"`
	Applied []string          `json:"applied"`
	Stage   string            `json:"stage"`
	// > 0: the hook's name is so long that creating the i-th temp file fails (file-name limit): no process runs
	PrepFail int `json:"prepfail"`
}

type Step struct {
	Act  []string `json:"act"`
	Live []string `json:"live"`
	Gone []string `json:"gone"`
}

type Case struct {
	ID      int               `json:"id"`
	Kind    string            `json:"kind"`
	EnvVars map[string]string `json:"envvars"` // documented variable -> file kind
	Execs   map[string]Exec   `json:"execs"`
	Steps   []Step            `json:"steps"`
}

type Fail struct {
	Sig    string `json:"sig"`
	Detail string `json:"detail"`
	Exec   string `json:"exec,omitempty"`
	Step   int    `json:"step"`
}

type Result struct {
	Case     int      `json:"case"`
	OK       bool     `json:"ok"`
	Sig      string   `json:"sig,omitempty"`
	Detail   string   `json:"detail,omitempty"`
	Fails    []Fail   `json:"fails,omitempty"`
	Soft     []Fail   `json:"soft,omitempty"` // conformance differences that are not property failures
	Spawns   int      `json:"spawns"`
	Steps    int      `json:"steps"`
	Overlap  bool     `json:"overlap"`  // two processes were alive at the same time
	Observed []string `json:"observed"` // exec:status:applied kinds
}

var kindOrder = []string{"metrics", "admission", "conversion", "patch"}

// ---------------------------------------------------------------------------------------------------------
// abstract output class -> file content (the only place that knows the concrete syntaxes)

type names struct{ obj, metric, marker string }

func namesFor(caseID int, e string) names {
	return names{obj: fmt.Sprintf("c12-%d-%s", caseID, e), metric: fmt.Sprintf("c12_case%d_%s", caseID, e), marker: fmt.Sprintf("c12-marker-%d-%s", caseID, e)}
}

func createDoc(name string) string {
	return fmt.Sprintf(`{"operation":"Create","object":{"apiVersion":"v1","kind":"ConfigMap","metadata":{"name":%q,"namespace":"default"},"data":{"made":"by-hook"}}}`, name)
}

func metricDoc(name string) string {
	return fmt.Sprintf(`{"name":%q,"action":"set","value":7,"labels":{"c12":"x"}}`, name)
}

func cut(s string) string { return s[:len(s)*3/5] }

// content renders class c of file kind k; variant selects among equivalent concretisations.
func content(k, c string, n names, variant int) string {
	if c == "empty" {
		return ""
	}
	switch k {
	case "patch":
		switch c {
		case "valid":
			return createDoc(n.obj) + "\n"
		case "truncated":
			if variant%2 == 0 {
				return createDoc(n.obj+"-first") + "\n" + cut(createDoc(n.obj))
			}
			return cut(createDoc(n.obj))
		case "wrongtype":
			return []string{`["Create"]`, `"Create"`, `{"operation":["Create"],"object":{"apiVersion":"v1","kind":"ConfigMap","metadata":{"name":"` + n.obj + `","namespace":"default"}}}`, `42`}[variant%4] + "\n"
		case "unappliable":
			return fmt.Sprintf(`{"operation":"MergePatch","apiVersion":"v1","kind":"ConfigMap","namespace":"default","name":%q,"mergePatch":{"data":{"a":"b"}}}`, n.obj+"-missing") + "\n"
		}
	case "metrics":
		switch c {
		case "valid":
			return metricDoc(n.metric) + "\n"
		case "truncated":
			if variant%2 == 0 {
				return metricDoc(n.metric+"_first") + "\n" + cut(metricDoc(n.metric))
			}
			return cut(metricDoc(n.metric))
		case "wrongtype":
			return []string{`["` + n.metric + `"]`, `"` + n.metric + `"`, `{"name":"` + n.metric + `","set":"seven"}`, `42`}[variant%4] + "\n"
		case "unappliable":
			return fmt.Sprintf(`{"name":%q,"action":"bogus","value":1}`, n.metric) + "\n"
		}
	case "admission":
		v := fmt.Sprintf(`{"allowed":true,"message":%q}`, n.marker)
		switch c {
		case "valid":
			return v + "\n"
		case "truncated":
			return cut(v)
		case "wrongtype":
			return []string{`["allowed"]`, `"allowed"`, `{"allowed":"yes","message":"` + n.marker + `"}`, `42`}[variant%4] + "\n"
		}
	case "conversion":
		v := fmt.Sprintf(`{"convertedObjects":[{"apiVersion":"v1","kind":"ConfigMap","metadata":{"name":%q}}]}`, n.marker)
		switch c {
		case "valid":
			return v + "\n"
		case "truncated":
			return cut(v)
		case "wrongtype":
			return []string{`["convertedObjects"]`, `"convertedObjects"`, `{"failedMessage":5}`, `{"convertedObjects":"` + n.marker + `"}`, `true`}[variant%5] + "\n"
		}
	}
	return "?" // unknown class: the case is rejected before it runs
}

// ---------------------------------------------------------------------------------------------------------
// fixture

var cmGVR = schema.GroupVersionResource{Group: "", Version: "v1", Resource: "configmaps"}

// realHook maps the specification's hook name to the path below the hooks directory. L<n> = a relative path of
// n characters: hook.go derives the temp file names from it, and with n = 189 / 190 / 193 the name of the
// conversion-response / admission-response / binding-context file exceeds NAME_MAX (255).
func realHook(h string) string {
	if strings.HasPrefix(h, "L") {
		n := 0
		fmt.Sscan(h[1:], &n)
		if n > 10 {
			return "long/" + strings.Repeat("h", n-5)
		}
	}
	return h
}

func hookConfigs() []opfix.HookCfg {
	mk := func(name string) opfix.HookCfg {
		return opfix.HookCfg{Name: name,
			Kube:  []opfix.KubeB{{Name: "k1", Queue: "qk", Sync: false}},
			Sched: []opfix.SchedB{{Name: "s1", Crontab: "c1", Queue: "qa"}, {Name: "s2", Crontab: "c2", Queue: "qb"}}}
	}
	return []opfix.HookCfg{mk("c12a"), mk("sub/c12b"), mk(realHook("L189")), mk(realHook("L190")), mk(realHook("L193"))}
}

func buildContexts(ds []CtxDesc) []bctx.BindingContext {
	out := []bctx.BindingContext{}
	for _, d := range ds {
		bc := bctx.BindingContext{Binding: d.Binding}
		switch d.Type {
		case "Schedule":
			bc.Metadata.BindingType = htypes.Schedule
		case "Event":
			bc.Metadata.BindingType = htypes.OnKubernetesEvent
			bc.Type = kemtypes.TypeEvent
			bc.WatchEvent = kemtypes.WatchEventType(d.WatchEvent)
			obj := &unstructured.Unstructured{Object: map[string]interface{}{"apiVersion": "v1", "kind": "ConfigMap",
				"metadata": map[string]interface{}{"name": d.Object, "namespace": "default"}}}
			bc.Objects = []kemtypes.ObjectAndFilterResult{{Object: obj}}
		}
		out = append(out, bc)
	}
	return out
}

// what the hook found in the binding-context file, projected to the descriptor shape
func seenContexts(raw []map[string]interface{}) []CtxDesc {
	out := []CtxDesc{}
	for _, c := range raw {
		d := CtxDesc{}
		d.Binding, _ = c["binding"].(string)
		d.Type, _ = c["type"].(string)
		d.WatchEvent, _ = c["watchEvent"].(string)
		if o, ok := c["object"].(map[string]interface{}); ok {
			if m, ok := o["metadata"].(map[string]interface{}); ok {
				d.Object, _ = m["name"].(string)
			}
		}
		out = append(out, d)
	}
	return out
}

type running struct {
	e       string
	x       Exec
	t       *task.BaseTask
	done    chan string // task status
	status  string
	start   *opfix.ExecStart
	paths   map[string]string // kind -> path
	names   names
	variant int
	exited  bool
	ended   bool
}

type runner struct {
	f       *opfix.Fixture
	used    map[string]string // path -> "case/exec" of every temp file name ever seen in this process
	spawned int
}

func real(p string) string {
	if r, err := filepath.EvalSymlinks(p); err == nil {
		return r
	}
	return filepath.Clean(p)
}

func exists(p string) bool { _, err := os.Lstat(p); return err == nil }

func (r *runner) metricPresent(name string) bool {
	if ms, ok := r.f.Op.HookMetricStorage.(*metricstorage.MetricStorage); ok && ms.Gatherer != nil {
		fams, err := ms.Gatherer.Gather()
		if err != nil {
			return false
		}
		for _, fam := range fams {
			if fam.GetName() == name && len(fam.GetMetric()) > 0 {
				return true
			}
		}
		return false
	}
	// another implementation of metric.Storage: scrape its handler
	rec := httptest.NewRecorder()
	r.f.Op.HookMetricStorage.Handler().ServeHTTP(rec, httptest.NewRequest("GET", "/metrics", nil))
	for _, line := range strings.Split(rec.Body.String(), "\n") {
		if strings.HasPrefix(line, name+"{") || strings.HasPrefix(line, name+" ") {
			return true
		}
	}
	return false
}

func (r *runner) objectPresent(name string) bool {
	_, err := r.f.FC.Client.Dynamic().Resource(cmGVR).Namespace("default").Get(context.Background(), name, metav1.GetOptions{})
	return err == nil
}

// observe returns, per output kind, whether an effect of this execution's file is visible, and a description.
func (r *runner) observe(x *running) (map[string]bool, map[string]string) {
	got := map[string]bool{}
	what := map[string]string{}
	if r.objectPresent(x.names.obj) {
		got["patch"], what["patch"] = true, "object "+x.names.obj+" exists"
	} else if r.objectPresent(x.names.obj + "-first") {
		got["patch"], what["patch"] = true, "object "+x.names.obj+"-first (first document of the file) exists"
	}
	if r.metricPresent(x.names.metric) {
		got["metrics"], what["metrics"] = true, "metric "+x.names.metric+" is in the hook metric storage"
	} else if r.metricPresent(x.names.metric + "_first") {
		got["metrics"], what["metrics"] = true, "metric "+x.names.metric+"_first (first line of the file) is in the hook metric storage"
	}
	if v := x.t.GetProp("admissionResponse"); v != nil {
		if ar, ok := v.(*admission.Response); ok && ar != nil {
			got["admission"], what["admission"] = true, "task property admissionResponse = "+ar.Dump()
			if x.x.Out["admission"] == "valid" && (!ar.Allowed || ar.Message != x.names.marker) {
				what["admission!"] = "admissionResponse is " + ar.Dump() + ", the hook wrote allowed=true message=" + x.names.marker
			}
		} else if !ok {
			got["admission"], what["admission"] = true, fmt.Sprintf("task property admissionResponse of type %T", v)
		}
	}
	if v := x.t.GetProp("conversionResponse"); v != nil {
		if cr, ok := v.(*conversion.Response); ok && cr != nil {
			got["conversion"], what["conversion"] = true, "task property conversionResponse = "+cr.Dump()
			if x.x.Out["conversion"] == "valid" && (len(cr.ConvertedObjects) != 1 || !strings.Contains(string(cr.ConvertedObjects[0].Raw), x.names.marker)) {
				what["conversion!"] = "conversionResponse is " + cr.Dump() + ", the hook wrote one object named " + x.names.marker
			}
		} else if !ok {
			got["conversion"], what["conversion"] = true, fmt.Sprintf("task property conversionResponse of type %T", v)
		}
	}
	return got, what
}

// cause names the input class of an execution for signatures
func cause(x Exec) string {
	if x.PrepFail > 0 {
		return "prepare-failed"
	}
	if x.Exit != 0 {
		return "exit-nonzero"
	}
	for _, k := range kindOrder {
		if c := x.Out[k]; c != "empty" && c != "valid" {
			return k + "-" + c
		}
	}
	return "outputs-ok"
}

func has(l []string, s string) bool {
	for _, x := range l {
		if x == s {
			return true
		}
	}
	return false
}

func (r *runner) runCase(c Case) Result {
	res := Result{Case: c.ID, OK: true}
	fail := func(step int, e, sig, detail string) {
		res.Fails = append(res.Fails, Fail{Sig: sig, Detail: detail, Exec: e, Step: step})
	}
	soft := func(step int, e, sig, detail string) {
		res.Soft = append(res.Soft, Fail{Sig: sig, Detail: detail, Exec: e, Step: step})
	}
	finish := func() Result {
		if len(res.Fails) > 0 {
			res.OK = false
			res.Sig, res.Detail = res.Fails[0].Sig, res.Fails[0].Detail
		} else if len(res.Soft) > 0 {
			res.OK = false
			res.Sig, res.Detail = res.Soft[0].Sig, res.Soft[0].Detail
		}
		return res
	}
	f := r.f
	runs := map[string]*running{}
	tag := func(e string) string { return fmt.Sprintf("case %d/%s", c.ID, e) }

	// make sure nothing is left blocked or running when the case ends early
	defer func() {
		for _, x := range runs {
			if x.start != nil && !x.exited {
				f.FinishExec(x.start.ID, map[string]interface{}{"exit": 0})
			}
			if x.done != nil && x.status == "" {
				select {
				case x.status = <-x.done:
				case <-time.After(10 * time.Second):
				}
			}
		}
		ents, _ := os.ReadDir(f.TmpDir)
		for _, e := range ents {
			os.Remove(filepath.Join(f.TmpDir, e.Name()))
		}
	}()

	checkLiveGone := func(i int, st Step) {
		for _, e := range st.Live {
			x := runs[e]
			if x == nil || x.start == nil {
				continue
			}
			for k, p := range x.paths {
				if !exists(p) {
					fail(i, e, "C12/disturbed/"+k+"-file-missing", fmt.Sprintf("%s: the %s file %s of the running hook process no longer exists (after step %v)", tag(e), k, p, st.Act))
				}
			}
			// the binding-context file still holds the contexts of this task
			if b, err := os.ReadFile(x.paths["ctx"]); err == nil {
				var raw []map[string]interface{}
				if json.Unmarshal(b, &raw) != nil || !reflect.DeepEqual(seenContexts(raw), x.x.Ctxs) {
					fail(i, e, "C12/disturbed/ctx-file-changed", fmt.Sprintf("%s: while the hook process runs its binding-context file %s holds %s, the task's contexts are %v (after step %v)", tag(e), x.paths["ctx"], strings.TrimSpace(string(b)), x.x.Ctxs, st.Act))
				}
			}
		}
		for _, e := range st.Gone {
			x := runs[e]
			if x == nil || x.start == nil {
				continue
			}
			for _, k := range append([]string{"ctx"}, kindOrder...) {
				if p := x.paths[k]; p != "" && exists(p) {
					fail(i, e, "C12/leftover/"+k+"/"+cause(x.x), fmt.Sprintf("%s: the %s file %s still exists after the execution ended (%s, task status %s)", tag(e), k, p, cause(x.x), x.status))
				}
			}
		}
	}

	for i, st := range c.Steps {
		res.Steps = i + 1
		op, e := st.Act[0], st.Act[1]
		x := runs[e]
		switch op {
		case "Plan":
			pl, ok := c.Execs[e]
			if !ok {
				soft(i, e, "DIV/case", "no plan for "+e)
				return finish()
			}
			x = &running{e: e, x: pl, names: namesFor(c.ID, e), variant: c.ID + len(runs)}
			for _, k := range kindOrder {
				if content(k, pl.Out[k], x.names, 0) == "?" {
					soft(i, e, "DIV/case", "unknown class "+pl.Out[k]+" for "+k)
					return finish()
				}
			}
			bcs := buildContexts(pl.Ctxs)
			meta := task_metadata.HookMetadata{HookName: realHook(pl.Hook), Binding: pl.Ctxs[0].Binding, BindingContext: bcs, AllowFailure: false}
			meta.BindingType = bcs[0].Metadata.BindingType
			x.t = task.NewTask(task_metadata.HookRun).WithMetadata(meta).WithQueueName(pl.Queue)
			x.t.WithQueuedAt(time.Now())
			runs[e] = x
		case "Prepare":
			// happens inside the handler, which is started at ExecStart
		case "ExecStart":
			if x == nil {
				soft(i, e, "DIV/case", "ExecStart without Plan")
				return finish()
			}
			f.NewExecs() // drain
			x.done = make(chan string, 1)
			go func(x *running) {
				r := f.Op.VerifTaskHandler(x.t)
				x.done <- string(r.Status)
			}(x)
			deadline := time.Now().Add(15 * time.Second)
			for x.start == nil && time.Now().Before(deadline) {
				if xs := f.NewExecs(); len(xs) > 0 {
					s := xs[0]
					x.start = &s
					if len(xs) > 1 {
						soft(i, e, "DIV/steer/two-processes", fmt.Sprintf("%s: %d processes started for one task", tag(e), len(xs)))
					}
					break
				}
				select {
				case x.status = <-x.done:
					deadline = time.Now() // handler returned without running the hook
				case <-time.After(300 * time.Microsecond):
				}
			}
			if x.start == nil {
				if x.status != "" {
					fail(i, e, "C12/no-execution", fmt.Sprintf("%s: the task handler returned %s without starting the hook process", tag(e), x.status))
				} else {
					soft(i, e, "DIV/steer/no-start", fmt.Sprintf("%s: no hook process within 15s", tag(e)))
				}
				return finish()
			}
			r.spawned++
			res.Spawns++
			for _, o := range runs {
				if o != x && o.start != nil && !o.exited {
					res.Overlap = true
				}
			}
			r.checkStart(c, i, x, fail, soft, tag(e), runs)
		case "PrepareFail":
			// the temp files of this hook cannot all be created: the handler fails without a process and leaves nothing
			if x == nil {
				soft(i, e, "DIV/case", "PrepareFail without Plan")
				return finish()
			}
			f.NewExecs()
			x.done = make(chan string, 1)
			go func(x *running) {
				r := f.Op.VerifTaskHandler(x.t)
				x.done <- string(r.Status)
			}(x)
			deadline := time.Now().Add(15 * time.Second)
			for x.status == "" && time.Now().Before(deadline) {
				select {
				case x.status = <-x.done:
				case <-time.After(500 * time.Microsecond):
					if xs := f.NewExecs(); len(xs) > 0 {
						// this file system accepts the long names: the case does not apply here
						s := xs[0]
						x.start = &s
						f.FinishExec(s.ID, map[string]interface{}{"exit": 0})
						x.exited = true
						soft(i, e, "DIV/prepare-did-not-fail", fmt.Sprintf("%s: the hook process started although a temp file name of %d+ characters was expected to be refused", tag(e), 256))
						select {
						case x.status = <-x.done:
						case <-time.After(15 * time.Second):
						}
						x.ended = true
						return finish()
					}
				}
			}
			if x.status == "" {
				soft(i, e, "DIV/steer/handler-hang", tag(e)+": the task handler did not return within 15s")
				return finish()
			}
			x.ended = true
			x.paths = map[string]string{}
			r.checkEnd(c, i, x, &res, fail, soft, tag(e))
			// whatever is in the temp directory and does not belong to another execution was left by this one
			others := map[string]bool{}
			for _, o := range runs {
				if o != x {
					for _, p := range o.paths {
						others[filepath.Base(p)] = true
					}
				}
			}
			ents, _ := os.ReadDir(f.TmpDir)
			left := []string{}
			for _, en := range ents {
				if !others[en.Name()] {
					left = append(left, en.Name())
					os.Remove(filepath.Join(f.TmpDir, en.Name()))
				}
			}
			if len(left) > 0 {
				fail(i, e, fmt.Sprintf("C12/leftover/prepare-failed/file-%d", x.x.PrepFail), fmt.Sprintf("%s: hook name of %d characters: creating temp file %d of 5 failed (task status %s, no process), the files created before it were left in the temp directory: %d file(s), e.g. %.60s...", tag(e), len(realHook(x.x.Hook)), x.x.PrepFail, x.status, len(left), left[0]))
			}
		case "ExecExit":
			if x == nil || x.start == nil {
				soft(i, e, "DIV/case", "ExecExit without a process")
				return finish()
			}
			out := map[string]interface{}{"exit": x.x.Exit}
			for _, k := range kindOrder {
				out[k] = content(k, x.x.Out[k], x.names, x.variant+len(k))
			}
			f.FinishExec(x.start.ID, out)
			x.exited = true
			endFile := filepath.Join(f.CtlDir, "exec", x.start.ID+".end")
			deadline := time.Now().Add(15 * time.Second)
			for !exists(endFile) && time.Now().Before(deadline) {
				time.Sleep(200 * time.Microsecond)
			}
			if !exists(endFile) {
				soft(i, e, "DIV/steer/no-exit", tag(e)+": the hook process did not end within 15s")
				return finish()
			}
		case "Parse", "Apply":
			// inside the handler
		case "Cleanup":
			if x == nil || x.done == nil {
				soft(i, e, "DIV/case", "Cleanup without a handler")
				return finish()
			}
			if x.status == "" {
				select {
				case x.status = <-x.done:
				case <-time.After(20 * time.Second):
					soft(i, e, "DIV/steer/handler-hang", tag(e)+": the task handler did not return within 20s after the process ended")
					return finish()
				}
			}
			x.ended = true
			r.checkEnd(c, i, x, &res, fail, soft, tag(e))
		default:
			soft(i, e, "DIV/case", "unknown action "+op)
			return finish()
		}
		checkLiveGone(i, st)
	}
	// everything ended: the temp directory is empty
	allDone := true
	for _, x := range runs {
		if !x.ended {
			allDone = false
		}
	}
	if allDone {
		ents, _ := os.ReadDir(f.TmpDir)
		if len(ents) > 0 {
			l := []string{}
			for _, e := range ents {
				l = append(l, e.Name())
			}
			cs := []string{}
			for _, e := range sortedKeys(runs) {
				cs = append(cs, cause(runs[e].x))
			}
			fail(len(c.Steps), "", "C12/leftover/tmpdir/"+strings.Join(cs, "+"), fmt.Sprintf("case %d: after all executions ended the temp directory still holds %v", c.ID, l))
		}
	}
	return finish()
}

func sortedKeys(m map[string]*running) []string {
	l := []string{}
	for k := range m {
		l = append(l, k)
	}
	sort.Strings(l)
	return l
}

// checkStart: EnvContract, ContextsExact, FreshNames on what the process saw when it started.
func (r *runner) checkStart(c Case, i int, x *running, fail, soft func(int, string, string, string), tag string, runs map[string]*running) {
	s := x.start
	f := r.f
	if s.Hook != realHook(x.x.Hook) {
		fail(i, x.e, "C12/wrong-hook", fmt.Sprintf("%s: hook %s was executed for a task of hook %s", tag, s.Hook, realHook(x.x.Hook)))
	}
	wantCwd := real(filepath.Join(f.HooksDir, x.x.Cwd))
	if real(s.Cwd) != wantCwd {
		fail(i, x.e, "C12/env/cwd", fmt.Sprintf("%s: the hook %s ran in directory %s, its own directory is %s", tag, x.x.Hook, s.Cwd, wantCwd))
	}
	x.paths = map[string]string{}
	vars := []string{}
	for v := range c.EnvVars {
		vars = append(vars, v)
	}
	sort.Strings(vars)
	for _, v := range vars {
		k := c.EnvVars[v]
		p := s.Env[v]
		if p == "" {
			fail(i, x.e, "C12/env/unset/"+v, fmt.Sprintf("%s: environment variable %s is not set", tag, v))
			continue
		}
		if q, ok := x.paths[k]; ok && q != p {
			fail(i, x.e, "C12/env/two-paths/"+k, fmt.Sprintf("%s: two variables of the %s file differ: %s and %s", tag, k, q, p))
		}
		x.paths[k] = p
		switch size := s.Files[v].(type) {
		case float64:
			if k != "ctx" && size != 0 {
				fail(i, x.e, "C12/env/not-empty/"+k, fmt.Sprintf("%s: the %s file %s (%s) held %d bytes when the hook started", tag, k, p, v, int(size)))
			}
		default:
			fail(i, x.e, "C12/env/missing-file/"+k, fmt.Sprintf("%s: %s=%s does not exist when the hook starts", tag, v, p))
		}
	}
	// the alias the code sets besides the documented variables
	if p := s.Env["ADMISSION_RESPONSE_PATH"]; p != "" && x.paths["admission"] != "" && p != x.paths["admission"] {
		soft(i, x.e, "DIV/env/admission-alias", fmt.Sprintf("%s: ADMISSION_RESPONSE_PATH=%s differs from VALIDATING_RESPONSE_PATH=%s", tag, p, x.paths["admission"]))
	}
	// distinct files per kind
	byPath := map[string]string{}
	for k, p := range x.paths {
		if o, ok := byPath[p]; ok {
			a, b := o, k
			if a > b {
				a, b = b, a
			}
			fail(i, x.e, "C12/names/shared-within-execution/"+a+"+"+b, fmt.Sprintf("%s: the %s and %s files are the same file %s", tag, a, b, p))
		}
		byPath[p] = k
	}
	// ContextsExact
	if got := seenContexts(s.Contexts); !reflect.DeepEqual(got, x.x.Ctxs) {
		sig := "C12/contexts/differ"
		if len(s.Contexts) == 0 {
			sig = "C12/contexts/none-at-start"
		}
		fail(i, x.e, sig, fmt.Sprintf("%s: the binding-context file held %v when the hook started, the task carries %v", tag, got, x.x.Ctxs))
	}
	// FreshNames: against every earlier execution of this process (consecutive) and the ones running now (concurrent)
	for k, p := range x.paths {
		if prev, ok := r.used[p]; ok {
			kind := "consecutive"
			for _, o := range runs {
				if o != x && o.start != nil && !o.ended && has(pathList(o.paths), p) {
					kind = "concurrent"
				}
			}
			fail(i, x.e, "C12/names/reused/"+kind+"/"+k, fmt.Sprintf("%s: the %s file name %s was already used by %s", tag, k, p, prev))
		}
	}
	for _, p := range x.paths {
		r.used[p] = tag
	}
	// the listing the process saw contains its files and the files of every process that is still blocked
	if dir := filepath.Dir(x.paths["ctx"]); x.paths["ctx"] != "" {
		for _, o := range runs {
			if o.start == nil || o.exited && o != x {
				continue
			}
			for k, p := range o.paths {
				if filepath.Dir(p) == dir && !has(s.TmpListing, filepath.Base(p)) {
					fail(i, x.e, "C12/disturbed/"+k+"-file-missing", fmt.Sprintf("%s: when the hook started, the %s file %s of %s was not in the temp directory %v", tag, k, p, o.e, s.TmpListing))
				}
			}
		}
	}
}

func pathList(m map[string]string) []string {
	l := []string{}
	for _, p := range m {
		l = append(l, p)
	}
	return l
}

// checkEnd: ResultRule on the finished execution (NoLeftovers is checked by the gone set of the step).
func (r *runner) checkEnd(c Case, i int, x *running, res *Result, fail, soft func(int, string, string, string), tag string) {
	got, what := r.observe(x)
	gl := []string{}
	for _, k := range kindOrder {
		if got[k] {
			gl = append(gl, k)
		}
	}
	res.Observed = append(res.Observed, fmt.Sprintf("%s:%s:%s", x.e, x.status, strings.Join(gl, "+")))
	plan := fmt.Sprintf("exit %d, outputs %v", x.x.Exit, x.x.Out)
	if x.status != x.x.Status {
		fail(i, x.e, fmt.Sprintf("C12/result/%s-instead-of-%s/%s", x.status, x.x.Status, cause(x.x)),
			fmt.Sprintf("%s: hook process with %s: task status %s, specification %s", tag, plan, x.status, x.x.Status))
	}
	for _, k := range x.x.Must {
		if !got[k] {
			fail(i, x.e, "C12/not-applied/"+k, fmt.Sprintf("%s: %s, task status %s, but the valid %s output was not applied", tag, plan, x.status, k))
		}
	}
	for _, k := range x.x.MustNot {
		if got[k] {
			fail(i, x.e, "C12/applied/"+k+"-"+x.x.Out[k], fmt.Sprintf("%s: %s: the %s file was %s, yet %s", tag, plan, k, x.x.Out[k], what[k]))
		}
	}
	for _, k := range []string{"admission!", "conversion!"} {
		if w, ok := what[k]; ok {
			fail(i, x.e, "C12/applied/other-content/"+strings.TrimSuffix(k, "!"), tag+": "+w)
		}
	}
	// exact agreement with the protocol machine (order of parsing and application): conformance only
	want := append([]string{}, x.x.Applied...)
	sort.Strings(want)
	g2 := append([]string{}, gl...)
	sort.Strings(g2)
	if !reflect.DeepEqual(want, g2) && len(res.Fails) == 0 {
		soft(i, x.e, "DIV/applied-set/"+cause(x.x), fmt.Sprintf("%s: %s: applied %v, the protocol machine applies %v (stage %s)", tag, plan, g2, want, x.x.Stage))
	}
}

func main() {
	os.Setenv("QUEUE_ACTIONS_METRICS", "no")
	os.Unsetenv("DEBUG_KEEP_TMP_FILES")
	// the operator's own environment may already carry these names (an operator started by a hook of another operator,
	// a test runner): every execution must still get the files of its own run
	for _, k := range []string{"BINDING_CONTEXT_PATH", "METRICS_PATH", "CONVERSION_RESPONSE_PATH", "VALIDATING_RESPONSE_PATH", "ADMISSION_RESPONSE_PATH", "KUBERNETES_PATCH_PATH"} {
		os.Setenv(k, "/nonexistent/verif-foreign-"+k)
	}
	fs := flag.NewFlagSet("hookrun", flag.ExitOnError)
	in := fs.String("in", "", "")
	out := fs.String("out", "", "")
	hookbin := fs.String("hookbin", "", "")
	fs.Parse(os.Args[1:])
	fh, err := os.Open(*in)
	if err != nil {
		fmt.Fprintln(os.Stderr, err)
		os.Exit(2)
	}
	var cases []Case
	sc := bufio.NewScanner(fh)
	sc.Buffer(make([]byte, 1<<20), 1<<28)
	for sc.Scan() {
		var c Case
		if err := json.Unmarshal(sc.Bytes(), &c); err != nil {
			fmt.Fprintln(os.Stderr, err)
			os.Exit(2)
		}
		cases = append(cases, c)
	}
	if !supervise.IsChild() {
		err := supervise.Run(len(cases), *out, 90*time.Second, func(idx int, why string) interface{} {
			sig := "DIV/crash"
			if strings.Contains(why, "panic:") && strings.Contains(why, "shell-operator/pkg") {
				sig = "C12/crash"
			}
			id := idx
			if idx < len(cases) {
				id = cases[idx].ID
			}
			return Result{Case: id, OK: false, Sig: sig, Detail: why}
		})
		if err != nil {
			fmt.Fprintln(os.Stderr, "hookrun:", err)
			os.Exit(2)
		}
		return
	}
	opfix.Knobs(time.Millisecond)
	f, err := opfix.New(hookConfigs(), *hookbin, "block", false)
	of, oerr := os.OpenFile(*out, os.O_APPEND|os.O_WRONLY|os.O_CREATE, 0o644)
	if oerr != nil {
		fmt.Fprintln(os.Stderr, oerr)
		os.Exit(2)
	}
	r := &runner{f: f, used: map[string]string{}}
	for n := supervise.Skip(); n < len(cases); n++ {
		var rr Result
		if err != nil {
			// the operator could not be assembled (hook configs rejected, ...): not an execution of the property
			rr = Result{Case: cases[n].ID, OK: false, Sig: "DIV/assemble", Detail: err.Error()}
		} else {
			rr = r.runCase(cases[n])
		}
		b, _ := json.Marshal(rr)
		of.Write(append(b, '\n'))
	}
	of.Close()
	if f != nil {
		os.RemoveAll(f.Root)
	}
}
