//go:build verif

// Package opfix assembles a real ShellOperator on a fake cluster with generated hooks (the hookbin helper,
// hard-linked under every hook name) and lets a harness step its queue workers from gate to gate.
package opfix

import (
	"context"
	"encoding/json"
	"fmt"
	"os"
	"path/filepath"
	"sort"
	"strings"
	"time"

	"github.com/deckhouse/deckhouse/pkg/log"
	metav1 "k8s.io/apimachinery/pkg/apis/meta/v1"
	"k8s.io/apimachinery/pkg/apis/meta/v1/unstructured"
	"k8s.io/apimachinery/pkg/runtime/schema"

	"github.com/flant/kube-client/fake"
	"github.com/flant/shell-operator/pkg/hook/task_metadata"
	htypes "github.com/flant/shell-operator/pkg/hook/types"
	kem "github.com/flant/shell-operator/pkg/kube_events_manager"
	schedulemanager "github.com/flant/shell-operator/pkg/schedule_manager"
	shell_operator "github.com/flant/shell-operator/pkg/shell-operator"
	"github.com/flant/shell-operator/pkg/task"
	"github.com/flant/shell-operator/pkg/task/queue"

	"verifharness/internal/fakewatch"
	"verifharness/internal/qgate"
)

type KubeB struct {
	Name  string `json:"name"`
	Queue string `json:"queue"`
	Group string `json:"group"`
	Sync  bool   `json:"sync"`
	Af    bool   `json:"af"`
	Extra string `json:"extra,omitempty"` // extra YAML lines for the binding (indented by 2)
}

type SchedB struct {
	Name    string `json:"name"`
	Crontab string `json:"crontab"`
	Queue   string `json:"queue"`
	Group   string `json:"group"`
	Af      bool   `json:"af"`
}

type HookCfg struct {
	Name  string   `json:"name"`
	Order int      `json:"order"`
	V0    bool     `json:"v0"`
	Kube  []KubeB  `json:"kube"`
	Sched []SchedB `json:"sched"`
	Extra string   `json:"extra,omitempty"` // extra top-level YAML (settings, ...)
	Raw   string   `json:"raw,omitempty"`   // complete config text (overrides everything else)
}

var Crontabs = map[string]string{"c1": "0 0 1 1 *", "c2": "0 0 2 1 *", "c3": "0 0 3 1 *"}

// NsOf is the namespace watched by binding b of hook h.
func NsOf(h, b string) string {
	return strings.ToLower(strings.NewReplacer("/", "-", "_", "-", ".", "-", " ", "-").Replace("ns-" + h + "-" + b))
}

func safe(n string) string { return strings.NewReplacer("/", "__", " ", "_").Replace(n) }

// RenderConfig produces the hook's --config output.
func RenderConfig(h HookCfg) string {
	if h.Raw != "" {
		return h.Raw
	}
	var b strings.Builder
	if h.V0 {
		m := map[string]interface{}{}
		if h.Order > 0 {
			m["onStartup"] = h.Order
		}
		var ks []interface{}
		for _, k := range h.Kube {
			ks = append(ks, map[string]interface{}{"name": k.Name, "kind": "ConfigMap", "event": []string{"add", "update", "delete"},
				"namespaceSelector": map[string]interface{}{"matchNames": []string{NsOf(h.Name, k.Name)}}, "allowFailure": k.Af})
		}
		if ks != nil {
			m["onKubernetesEvent"] = ks
		}
		var ss []interface{}
		for _, sc := range h.Sched {
			ct := Crontabs[sc.Crontab]
			if ct == "" {
				ct = sc.Crontab
			}
			ss = append(ss, map[string]interface{}{"name": sc.Name, "crontab": ct, "allowFailure": sc.Af})
		}
		if ss != nil {
			m["schedule"] = ss
		}
		out, _ := json.Marshal(m)
		return string(out)
	}
	b.WriteString("configVersion: v1\n")
	if h.Order > 0 {
		fmt.Fprintf(&b, "onStartup: %d\n", h.Order)
	}
	if h.Extra != "" {
		b.WriteString(h.Extra)
		if !strings.HasSuffix(h.Extra, "\n") {
			b.WriteString("\n")
		}
	}
	if len(h.Kube) > 0 {
		b.WriteString("kubernetes:\n")
		for _, k := range h.Kube {
			// kube-client's fake cluster honours the namespace of a watch but not its label selector:
			// every binding watches its own namespace
			fmt.Fprintf(&b, "- name: %s\n  apiVersion: v1\n  kind: ConfigMap\n  namespace:\n    nameSelector:\n      matchNames: [%q]\n", k.Name, NsOf(h.Name, k.Name))
			fmt.Fprintf(&b, "  queue: %s\n  executeHookOnSynchronization: %v\n  allowFailure: %v\n", k.Queue, k.Sync, k.Af)
			if k.Group != "" {
				fmt.Fprintf(&b, "  group: %s\n", k.Group)
			}
			if k.Extra != "" {
				b.WriteString(k.Extra)
				if !strings.HasSuffix(k.Extra, "\n") {
					b.WriteString("\n")
				}
			}
		}
	}
	if len(h.Sched) > 0 {
		b.WriteString("schedule:\n")
		for _, s := range h.Sched {
			ct := Crontabs[s.Crontab]
			if ct == "" {
				ct = s.Crontab
			}
			fmt.Fprintf(&b, "- name: %s\n  crontab: %q\n  queue: %s\n  allowFailure: %v\n", s.Name, ct, s.Queue, s.Af)
			if s.Group != "" {
				fmt.Fprintf(&b, "  group: %s\n", s.Group)
			}
		}
	}
	return b.String()
}

type Fixture struct {
	Root, HooksDir, TmpDir, CtlDir string
	FC                             *fake.Cluster
	Op                             *shell_operator.ShellOperator
	Q                              map[string]*qgate.Ctl
	Hooks                          []HookCfg
	cancel                         context.CancelFunc
	seenExec                       map[string]bool
	cmSeq                          int
	newQ                           chan *qgate.Ctl
	Watches                        *fakewatch.Tracker
}

// Knobs sets the package-level timing variables (read when queues / informers are created).
func Knobs(initialDelay time.Duration) {
	queue.DefaultWaitLoopCheckInterval = 200 * time.Microsecond
	queue.DefaultDelayOnQueueIsEmpty = time.Millisecond
	queue.DefaultDelayOnRepeat = time.Millisecond
	queue.DefaultInitialDelayOnFailedTask = initialDelay
	kem.DefaultSyncTime = 50 * time.Microsecond
	shell_operator.WaitQueuesTimeout = 30 * time.Millisecond
}

// New builds the hooks directory and the operator. gated: queue workers are parked at their gates.
func New(hooks []HookCfg, hookbin, mode string, gated bool) (*Fixture, error) {
	root, err := os.MkdirTemp("", "opfix.")
	if err != nil {
		return nil, err
	}
	f := &Fixture{Root: root, HooksDir: filepath.Join(root, "hooks"), TmpDir: filepath.Join(root, "tmp"), CtlDir: filepath.Join(root, "ctl"),
		Q: map[string]*qgate.Ctl{}, Hooks: hooks, seenExec: map[string]bool{}, newQ: make(chan *qgate.Ctl, 64)}
	for _, d := range []string{f.HooksDir, f.TmpDir, filepath.Join(f.CtlDir, "config"), filepath.Join(f.CtlDir, "exec"), filepath.Join(f.CtlDir, "plan")} {
		os.MkdirAll(d, 0o755)
	}
	for _, h := range hooks {
		p := filepath.Join(f.HooksDir, h.Name)
		os.MkdirAll(filepath.Dir(p), 0o755)
		if err := os.Link(hookbin, p); err != nil {
			b, _ := os.ReadFile(hookbin)
			if err := os.WriteFile(p, b, 0o755); err != nil {
				return nil, err
			}
		}
		os.WriteFile(filepath.Join(f.CtlDir, "config", safe(h.Name)+".yaml"), []byte(RenderConfig(h)), 0o644)
	}
	os.Setenv("VERIF_CTL_DIR", f.CtlDir)
	os.Setenv("VERIF_HOOKS_DIR", f.HooksDir)
	os.Setenv("VERIF_HOOK_MODE", mode)
	kem.DefaultFactoryStore.Reset()
	f.FC = fake.NewFakeCluster(fake.ClusterVersionV121)
	f.Watches, _ = fakewatch.Track(f.FC)
	ctx, cancel := context.WithCancel(context.Background())
	f.cancel = cancel
	if gated {
		qgate.Auto(func(c *qgate.Ctl) { f.newQ <- c })
	} else {
		qgate.Auto(nil)
	}
	op, err := shell_operator.VerifAssemble(ctx, f.FC.Client, f.HooksDir, f.TmpDir, log.NewNop())
	f.Op = op
	if err != nil {
		return f, err
	}
	return f, nil
}

// Bootstrap fills the main queue and starts the workers; with gates every worker parks at its first gate.
func (f *Fixture) Bootstrap(gated bool) error {
	f.Op.VerifBootstrap(true)
	if !gated {
		return nil
	}
	n := 0
	f.Op.TaskQueues.DoWithLock(func(tqs *queue.TaskQueueSet) { n = len(tqs.Queues) })
	deadline := time.After(5 * time.Second)
	for len(f.Q) < n {
		select {
		case c := <-f.newQ:
			ev := c.Wait(3 * time.Second) // parked at q.top
			if ev.Kind != "gate" {
				return fmt.Errorf("queue %s: worker did not park (%v)", c.Q.Name, ev)
			}
			f.Q[c.Q.Name] = c
		case <-deadline:
			return fmt.Errorf("only %d of %d queue workers reached their first gate", len(f.Q), n)
		}
	}
	return nil
}

// RunToHandler releases the worker of queue q until its handler is entered; returns the task id.
func (f *Fixture) RunToHandler(q string, max time.Duration) (string, error) {
	c := f.Q[q]
	if c == nil {
		return "", fmt.Errorf("no queue %s", q)
	}
	deadline := time.Now().Add(max)
	for time.Now().Before(deadline) {
		if !c.Release() {
			return "", fmt.Errorf("queue %s: worker not parked", q)
		}
		ev := c.Wait(3 * time.Second)
		switch ev.Kind {
		case "handler":
			return ev.Task, nil
		case "gate":
			if ev.Gate == "q.exit" {
				return "", fmt.Errorf("queue %s: worker exited", q)
			}
		default:
			return "", fmt.Errorf("queue %s: worker lost (%v)", q, ev)
		}
	}
	return "", fmt.Errorf("queue %s: no handler invocation within %s", q, max)
}

// WaitHandled waits for the handler of q to return and walks the worker through result application back to
// the top of its loop. Returns the task status.
func (f *Fixture) WaitHandled(q string, max time.Duration) (string, error) {
	c := f.Q[q]
	ev := c.Wait(max)
	if ev.Kind != "handled" {
		return "", fmt.Errorf("queue %s: handler did not return (%v)", q, ev)
	}
	status := ev.Status
	for _, want := range []string{"q.handled", "q.apply", "q.top"} {
		ev = c.Wait(3 * time.Second)
		if ev.Kind != "gate" || ev.Gate != want {
			return status, fmt.Errorf("queue %s: expected gate %s, got %v", q, want, ev)
		}
		if want != "q.top" {
			if !c.Release() {
				return status, fmt.Errorf("queue %s: cannot release at %s", q, want)
			}
		}
	}
	return status, nil
}

// TryHandled reports whether the handler already returned (tasks that run no hook process).
func (f *Fixture) TryHandled(q string, d time.Duration) (bool, string, error) {
	c := f.Q[q]
	ev := c.Wait(d)
	if ev.Kind == "timeout" {
		return false, "", nil
	}
	if ev.Kind != "handled" {
		return false, "", fmt.Errorf("queue %s: unexpected %v", q, ev)
	}
	status := ev.Status
	for _, want := range []string{"q.handled", "q.apply", "q.top"} {
		ev = c.Wait(3 * time.Second)
		if ev.Kind != "gate" || ev.Gate != want {
			return true, status, fmt.Errorf("queue %s: expected gate %s, got %v", q, want, ev)
		}
		if want != "q.top" {
			c.Release()
		}
	}
	return true, status, nil
}

type ExecStart struct {
	ID         string                   `json:"id"`
	Hook       string                   `json:"hook"`
	Start      int64                    `json:"start"`
	Cwd        string                   `json:"cwd"`
	Env        map[string]string        `json:"env"`
	Files      map[string]interface{}   `json:"files"`
	Contexts   []map[string]interface{} `json:"contexts"`
	TmpListing []string                 `json:"tmp_listing"`
}

// NewExecs returns the executions that started since the last call.
func (f *Fixture) NewExecs() []ExecStart {
	ents, _ := os.ReadDir(filepath.Join(f.CtlDir, "exec"))
	var out []ExecStart
	for _, e := range ents {
		if !strings.HasSuffix(e.Name(), ".start") || f.seenExec[e.Name()] {
			continue
		}
		b, err := os.ReadFile(filepath.Join(f.CtlDir, "exec", e.Name()))
		if err != nil {
			continue
		}
		var s ExecStart
		if json.Unmarshal(b, &s) != nil {
			continue
		}
		f.seenExec[e.Name()] = true
		out = append(out, s)
	}
	sort.Slice(out, func(i, j int) bool { return out[i].ID < out[j].ID })
	return out
}

// WaitExec waits for one new execution to start.
func (f *Fixture) WaitExec(max time.Duration) (*ExecStart, error) {
	deadline := time.Now().Add(max)
	for time.Now().Before(deadline) {
		if xs := f.NewExecs(); len(xs) > 0 {
			if len(xs) > 1 {
				return &xs[0], fmt.Errorf("%d executions started at once", len(xs))
			}
			return &xs[0], nil
		}
		time.Sleep(300 * time.Microsecond)
	}
	return nil, fmt.Errorf("no hook execution started within %s", max)
}

// FinishExec lets a blocked hook process end with the given outcome (JSON of hookbin's Outcome).
func (f *Fixture) FinishExec(id string, outcome map[string]interface{}) {
	b, _ := json.Marshal(outcome)
	tmp := filepath.Join(f.CtlDir, "exec", id+".go.tmp")
	os.WriteFile(tmp, b, 0o644)
	os.Rename(tmp, filepath.Join(f.CtlDir, "exec", id+".go"))
}

type CtxDesc struct {
	B string `json:"b"`
	K string `json:"k"`
	G string `json:"g"`
}

type TaskDesc struct {
	ID   string    `json:"id"`
	Type string    `json:"type"`
	Hook string    `json:"hook"`
	Kind string    `json:"kind"`
	Ctxs []CtxDesc `json:"ctxs"`
	Af   bool      `json:"af"`
	Q    string    `json:"q"`
}

func Describe(t task.Task) TaskDesc {
	d := TaskDesc{ID: t.GetId(), Q: t.GetQueueName(), Ctxs: []CtxDesc{}}
	switch t.GetType() {
	case task_metadata.HookRun:
		d.Type = "HookRun"
	case task_metadata.EnableKubernetesBindings:
		d.Type = "EnableKube"
	case task_metadata.EnableScheduleBindings:
		d.Type = "EnableSched"
	default:
		d.Type = string(t.GetType())
	}
	hm, ok := t.GetMetadata().(task_metadata.HookMetadata)
	if !ok {
		return d
	}
	d.Hook = hm.HookName
	d.Af = hm.AllowFailure
	d.Kind = "Enable"
	for i, bc := range hm.BindingContext {
		k := ""
		switch hm.BindingType {
		case htypes.OnKubernetesEvent:
			k = string(bc.Type)
		case htypes.OnStartup:
			k = "OnStartup"
		case htypes.Schedule:
			k = "Schedule"
		default:
			k = string(hm.BindingType)
		}
		// combined tasks keep the head's BindingType: take the kind from the context itself where it says so
		if bc.Metadata.BindingType == htypes.Schedule {
			k = "Schedule"
		} else if bc.Metadata.BindingType == htypes.OnKubernetesEvent {
			k = string(bc.Type)
		} else if bc.Metadata.BindingType == htypes.OnStartup {
			k = "OnStartup"
		}
		if i == 0 {
			d.Kind = k
		}
		d.Ctxs = append(d.Ctxs, CtxDesc{B: bc.Binding, K: k, G: bc.Metadata.Group})
	}
	return d
}

// Queues dumps every queue.
func (f *Fixture) Queues() map[string][]TaskDesc {
	out := map[string][]TaskDesc{}
	var qs []*queue.TaskQueue
	f.Op.TaskQueues.DoWithLock(func(tqs *queue.TaskQueueSet) {
		for _, q := range tqs.Queues {
			qs = append(qs, q)
		}
	})
	for _, q := range qs {
		l := []TaskDesc{}
		q.Iterate(func(t task.Task) {
			if t != nil {
				l = append(l, Describe(t))
			}
		})
		out[q.Name] = l
	}
	return out
}

func (f *Fixture) QueueLen(q string) int {
	tq := f.Op.TaskQueues.GetByName(q)
	if tq == nil {
		return -1
	}
	return tq.Length()
}

// KubeEvent creates a new object matching binding b of hook h.
func (f *Fixture) KubeEvent(h, b string) error {
	f.cmSeq++
	cm := &unstructured.Unstructured{Object: map[string]interface{}{
		"apiVersion": "v1", "kind": "ConfigMap",
		"metadata": map[string]interface{}{"name": fmt.Sprintf("cm-%d", f.cmSeq), "namespace": NsOf(h, b)},
		"data":     map[string]interface{}{"n": fmt.Sprint(f.cmSeq)},
	}}
	gvr := schema.GroupVersionResource{Group: "", Version: "v1", Resource: "configmaps"}
	_, err := f.FC.Client.Dynamic().Resource(gvr).Namespace(NsOf(h, b)).Create(context.Background(), cm, metav1.CreateOptions{})
	return err
}

// Buffered returns the number of Events the monitor of binding b of hook h holds back (-1: no monitor yet).
func (f *Fixture) Buffered(h, b string) int {
	hk := f.Op.HookManager.GetHook(h)
	if hk == nil {
		return -1
	}
	for _, kc := range hk.GetConfig().OnKubernetesEvents {
		if kc.BindingName == b {
			if !f.Op.KubeEventsManager.HasMonitor(kc.Monitor.Metadata.MonitorId) {
				return -1
			}
			n, _ := kem.VerifBufferedEvents(f.Op.KubeEventsManager.GetMonitor(kc.Monitor.Metadata.MonitorId))
			return n
		}
	}
	return -1
}

// DrainToExit releases the worker of q until it exits (returns "") or enters a handler (returns the task id).
func (f *Fixture) DrainToExit(q string, max time.Duration) (string, error) {
	c := f.Q[q]
	deadline := time.Now().Add(max)
	for time.Now().Before(deadline) {
		if !c.TryRelease(500 * time.Millisecond) {
			if c.Q.GetStatus() == "stop" {
				return "", nil
			}
			return "", fmt.Errorf("queue %s: worker neither parked nor stopped", q)
		}
		ev := c.Wait(2 * time.Second)
		switch ev.Kind {
		case "handler":
			return ev.Task, nil
		case "gate":
			if ev.Gate == "q.exit" {
				c.TryRelease(500 * time.Millisecond)
				for k := 0; k < 2000 && c.Q.GetStatus() != "stop"; k++ {
					time.Sleep(100 * time.Microsecond)
				}
				return "", nil
			}
		case "timeout":
			if c.Q.GetStatus() == "stop" {
				return "", nil
			}
		}
	}
	return "", fmt.Errorf("queue %s: worker did not exit within %s", q, max)
}

// WalkToTop walks a worker that is parked at q.handled through result application back to the top of its loop.
func (f *Fixture) WalkToTop(q string) error {
	c := f.Q[q]
	if !c.Release() {
		return fmt.Errorf("queue %s: cannot release at q.handled", q)
	}
	for _, want := range []string{"q.apply", "q.top"} {
		ev := c.Wait(3 * time.Second)
		if ev.Kind != "gate" || ev.Gate != want {
			return fmt.Errorf("queue %s: expected gate %s, got %v", q, want, ev)
		}
		if want != "q.top" {
			if !c.Release() {
				return fmt.Errorf("queue %s: cannot release at %s", q, want)
			}
		}
	}
	return nil
}

// WalkIntoWait releases the worker of q from the top of its loop into waitForTask's wait loop (it parks at the first
// q.select): only valid when a delay is pending (after a failed run), otherwise the shortcut would pick a task.
func (f *Fixture) WalkIntoWait(q string) error {
	c := f.Q[q]
	for _, want := range []string{"q.shortcut", "q.select"} {
		if !c.Release() {
			return fmt.Errorf("queue %s: cannot release before %s", q, want)
		}
		ev := c.Wait(3 * time.Second)
		if ev.Kind != "gate" || ev.Gate != want {
			return fmt.Errorf("queue %s: expected gate %s, got %v", q, want, ev)
		}
	}
	return nil
}

// WaitHandler waits for the handler of q to return (no gate walking).
func (f *Fixture) WaitHandlerReturn(q string, max time.Duration) (string, error) {
	ev := f.Q[q].Wait(max)
	if ev.Kind != "handled" {
		return "", fmt.Errorf("queue %s: handler did not return (%v)", q, ev)
	}
	ev2 := f.Q[q].Wait(3 * time.Second)
	if ev2.Kind != "gate" || ev2.Gate != "q.handled" {
		return ev.Status, fmt.Errorf("queue %s: expected gate q.handled, got %v", q, ev2)
	}
	return ev.Status, nil
}

// WaitWatches waits until the informers of every kubernetes binding of hook h watch the fake cluster (see fakewatch).
func (f *Fixture) WaitWatches(h string) error {
	if f.Watches == nil {
		return nil
	}
	for _, hc := range f.Hooks {
		if hc.Name != h {
			continue
		}
		for _, k := range hc.Kube {
			if err := f.Watches.Wait("configmaps", NsOf(hc.Name, k.Name), 1, 5*time.Second); err != nil {
				return err
			}
		}
	}
	return nil
}

// Tick fires the cron job registered for the (abstract) crontab, as the cron goroutine would.
func (f *Fixture) Tick(c string) (int, error) {
	ct := Crontabs[c]
	if ct == "" {
		ct = c
	}
	entries, ok := schedulemanager.VerifEntries(f.Op.ScheduleManager)
	if !ok {
		return 0, fmt.Errorf("schedule manager entries not accessible")
	}
	cronEntries, _ := schedulemanager.VerifCronEntries(f.Op.ScheduleManager)
	n := 0
	if e, has := entries[ct]; has {
		for _, ce := range cronEntries {
			if ce.ID == e.EntryID {
				ce.Job.Run()
				n++
			}
		}
	}
	return n, nil
}

// WaitQueueLen waits until queue q holds n tasks.
func (f *Fixture) WaitQueueLen(q string, n int, max time.Duration) bool {
	deadline := time.Now().Add(max)
	for time.Now().Before(deadline) {
		if f.QueueLen(q) == n {
			return true
		}
		time.Sleep(200 * time.Microsecond)
	}
	return false
}

// Close releases everything and shuts the operator down.
func (f *Fixture) Close() {
	qgate.Auto(nil)
	for _, c := range f.Q {
		c.Gated = false
	}
	// unblock hook processes
	ents, _ := os.ReadDir(filepath.Join(f.CtlDir, "exec"))
	for _, e := range ents {
		if strings.HasSuffix(e.Name(), ".start") {
			id := strings.TrimSuffix(e.Name(), ".start")
			if _, err := os.Stat(filepath.Join(f.CtlDir, "exec", id+".end")); err != nil {
				f.FinishExec(id, map[string]interface{}{"exit": 0})
			}
		}
	}
	if f.Op != nil && f.Op.TaskQueues != nil {
		f.Op.TaskQueues.Stop()
	}
	for _, c := range f.Q {
		cc := c
		go func() {
			for i := 0; i < 200 && cc.Q.GetStatus() != "stop"; i++ {
				if !cc.TryRelease(5 * time.Millisecond) {
					cc.Wait(time.Millisecond)
				}
			}
		}()
	}
	if f.Op != nil && f.Op.ScheduleManager != nil {
		done := make(chan struct{})
		go func() { f.Op.Shutdown(); close(done) }()
		select {
		case <-done:
		case <-time.After(2 * time.Second):
		}
	}
	f.cancel()
	for _, c := range f.Q {
		c.Close()
	}
	os.RemoveAll(f.Root)
}
