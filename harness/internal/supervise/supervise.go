// Package supervise re-executes the current binary as a child that processes cases one by one and appends
// one JSON result line per case to the output file. When the child dies (a panic in a goroutine of the code
// under test kills the process) the supervisor records a crash result for the case that was running and
// restarts the child behind it, so one crashing case neither hides the others nor hangs the check.
package supervise

import (
	"bufio"
	"bytes"
	"encoding/json"
	"fmt"
	"os"
	"os/exec"
	"strings"
	"time"
)

// IsChild reports whether this process is a supervised child.
func IsChild() bool { return os.Getenv("VERIF_CHILD") == "1" }

// Skip returns the number of cases the child must skip.
func Skip() int {
	n := 0
	fmt.Sscan(os.Getenv("VERIF_SKIP"), &n)
	return n
}

func countLines(path string) int {
	f, err := os.Open(path)
	if err != nil {
		return 0
	}
	defer f.Close()
	n := 0
	sc := bufio.NewScanner(f)
	sc.Buffer(make([]byte, 1<<20), 1<<28)
	for sc.Scan() {
		n++
	}
	return n
}

// Run supervises children until `total` results exist in out. crash builds the result line for a crashed or
// hung case. perCaseTimeout bounds the time without progress.
func Run(total int, out string, noProgress time.Duration, crash func(idx int, why string) interface{}) error {
	os.Remove(out)
	restarts := 0
	for {
		done := countLines(out)
		if done >= total {
			return nil
		}
		cmd := exec.Command(os.Args[0], os.Args[1:]...)
		cmd.Env = append(os.Environ(), "VERIF_CHILD=1", fmt.Sprintf("VERIF_SKIP=%d", done))
		var stderr bytes.Buffer
		cmd.Stderr = &stderr
		cmd.Stdout = os.Stdout
		if err := cmd.Start(); err != nil {
			return err
		}
		exited := make(chan error, 1)
		go func() { exited <- cmd.Wait() }()
		last := done
		lastChange := time.Now()
		var werr error
		hung := false
	loop:
		for {
			select {
			case werr = <-exited:
				break loop
			case <-time.After(200 * time.Millisecond):
				n := countLines(out)
				if n != last {
					last = n
					lastChange = time.Now()
				} else if time.Since(lastChange) > noProgress {
					hung = true
					cmd.Process.Kill()
					werr = <-exited
					break loop
				}
			}
		}
		n := countLines(out)
		if n >= total {
			return nil
		}
		if werr == nil && !hung {
			return fmt.Errorf("child exited normally after %d of %d cases", n, total)
		}
		why := "process died: " + tail(stderr.String(), 1500)
		if hung {
			why = fmt.Sprintf("no progress for %s (deadlock or hang); %s", noProgress, tail(stderr.String(), 600))
		}
		b, _ := json.Marshal(crash(n, why))
		f, err := os.OpenFile(out, os.O_APPEND|os.O_WRONLY|os.O_CREATE, 0o644)
		if err != nil {
			return err
		}
		f.Write(append(b, '\n'))
		f.Close()
		restarts++
		if restarts > 200 {
			return fmt.Errorf("too many child restarts")
		}
	}
}

func tail(s string, n int) string {
	// prefer the panic header
	if i := strings.Index(s, "panic:"); i >= 0 {
		s = s[i:]
		if len(s) > n {
			s = s[:n]
		}
		return s
	}
	if len(s) > n {
		s = s[len(s)-n:]
	}
	return s
}
