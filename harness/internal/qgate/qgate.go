//go:build verif

// Package qgate drives the worker goroutine of a real queue.TaskQueue from gate to gate
// (verifhook.At("q.*") hook points) and observes every write critical section.
package qgate

import (
	"fmt"
	"sync"
	"time"

	"github.com/flant/shell-operator/pkg/task"
	"github.com/flant/shell-operator/pkg/task/queue"
	"github.com/flant/shell-operator/pkg/verifhook"
)

// Event is what the worker did after it was released: parked at a gate or entered the handler.
type Event struct {
	Kind   string // "gate", "handler", "timeout"
	Gate   string // q.top, q.shortcut, q.select, q.get, q.handled, q.apply, q.exit
	Task   string // id handed to the handler
	Status string
}

// Ctl controls one queue.
type Ctl struct {
	Q       *queue.TaskQueue
	Gated   bool
	events  chan Event
	resume  chan struct{}
	results chan queue.TaskResult
	OnWrite func(ids []string)

	mu          sync.Mutex
	BackoffArgs []int
	Handled     []string // ids in the order the handler was invoked
}

var (
	regMu sync.RWMutex
	reg   = map[*queue.TaskQueue]*Ctl{}
	once  sync.Once
)

func hook(point string, args ...interface{}) {
	if len(point) < 2 || point[:2] != "q." || len(args) == 0 {
		if next != nil {
			next(point, args...)
		}
		return
	}
	q, ok := args[0].(*queue.TaskQueue)
	if !ok {
		return
	}
	regMu.RLock()
	c := reg[q]
	a := auto
	regMu.RUnlock()
	if c == nil && a != nil && point != "q.write" {
		// first sight of a queue started by the code under test (called on the queue's worker goroutine)
		c = Wrap(q, true)
		a(c)
	}
	if c == nil {
		return
	}
	if point == "q.write" {
		if c.OnWrite != nil {
			c.OnWrite(Ids(args[1].([]task.Task)))
		}
		return
	}
	if !c.Gated {
		return
	}
	c.events <- Event{Kind: "gate", Gate: point}
	<-c.resume
}

var next verifhook.Func

var auto func(*Ctl)

// Auto registers every queue the code under test starts by itself: its handler is wrapped (not replaced) and its
// worker is gated from its first hook point on. fn is told about each new queue.
func Auto(fn func(*Ctl)) {
	Install()
	regMu.Lock()
	auto = fn
	regMu.Unlock()
}

// Wrap keeps the queue's own handler and reports when it is entered ("handler") and left ("handled").
func Wrap(q *queue.TaskQueue, gated bool) *Ctl {
	c := &Ctl{Q: q, Gated: gated, events: make(chan Event, 16), resume: make(chan struct{}), results: make(chan queue.TaskResult)}
	orig := q.Handler
	q.Handler = func(t task.Task) queue.TaskResult {
		c.events <- Event{Kind: "handler", Task: t.GetId()}
		res := orig(t)
		c.events <- Event{Kind: "handled", Task: t.GetId(), Status: string(res.Status)}
		return res
	}
	regMu.Lock()
	reg[q] = c
	regMu.Unlock()
	return c
}

// Chain lets another package receive the hook points qgate does not handle.
func Chain(f verifhook.Func) { next = f }

// Install registers the hook multiplexer.
func Install() { once.Do(func() { verifhook.Set(hook) }) }

// Ids renders a task slice (nil slots as "NIL").
func Ids(ts []task.Task) []string {
	out := make([]string, 0, len(ts))
	for _, t := range ts {
		if t == nil {
			out = append(out, "NIL")
		} else {
			out = append(out, t.GetId())
		}
	}
	return out
}

// New wraps a queue. The handler installed here blocks until Result is called.
func New(q *queue.TaskQueue, gated bool) *Ctl {
	Install()
	c := &Ctl{Q: q, Gated: gated, events: make(chan Event, 4), resume: make(chan struct{}), results: make(chan queue.TaskResult)}
	q.WithHandler(func(t task.Task) queue.TaskResult {
		c.mu.Lock()
		c.Handled = append(c.Handled, t.GetId())
		c.mu.Unlock()
		c.events <- Event{Kind: "handler", Task: t.GetId()}
		return <-c.results
	})
	q.ExponentialBackoffFn = func(n int) time.Duration {
		c.mu.Lock()
		c.BackoffArgs = append(c.BackoffArgs, n)
		c.mu.Unlock()
		return time.Nanosecond
	}
	regMu.Lock()
	reg[q] = c
	regMu.Unlock()
	return c
}

// Close forgets the queue.
func (c *Ctl) Close() {
	regMu.Lock()
	delete(reg, c.Q)
	regMu.Unlock()
}

// Wait waits for the next worker event.
func (c *Ctl) Wait(d time.Duration) Event {
	select {
	case e := <-c.events:
		return e
	case <-time.After(d):
		return Event{Kind: "timeout"}
	}
}

// Release lets the parked worker run to its next gate.
func (c *Ctl) Release() bool {
	select {
	case c.resume <- struct{}{}:
		return true
	case <-time.After(2 * time.Second):
		return false
	}
}

// TryRelease releases the worker if it parks within d.
func (c *Ctl) TryRelease(d time.Duration) bool {
	select {
	case c.resume <- struct{}{}:
		return true
	case <-time.After(d):
		return false
	}
}

// Result makes the blocked handler return.
func (c *Ctl) Result(r queue.TaskResult) bool {
	select {
	case c.results <- r:
		return true
	case <-time.After(2 * time.Second):
		return false
	}
}

// LastBackoffArg returns the argument of the last ExponentialBackoffFn call or -1.
func (c *Ctl) LastBackoffArg() int {
	c.mu.Lock()
	defer c.mu.Unlock()
	if len(c.BackoffArgs) == 0 {
		return -1
	}
	return c.BackoffArgs[len(c.BackoffArgs)-1]
}

// Snapshot reads the queue through its public observers. A panic (nil slot) is reported as error.
func Snapshot(q *queue.TaskQueue, ids []string) (items []string, length int, first, last string, gets map[string]string, err error) {
	defer func() {
		if r := recover(); r != nil {
			err = fmt.Errorf("panic in observer: %v", r)
		}
	}()
	name := func(t task.Task) string {
		if t == nil {
			return "nil"
		}
		return t.GetId()
	}
	items = []string{}
	q.Iterate(func(t task.Task) {
		if t == nil {
			items = append(items, "NIL")
		} else {
			items = append(items, t.GetId())
		}
	})
	for _, x := range items {
		if x == "NIL" {
			// an empty slot: Get/Remove would panic while holding the queue lock; report what Iterate saw
			return items, q.Length(), "", "", nil, fmt.Errorf("empty slot in the queue")
		}
	}
	length = q.Length()
	first = name(q.GetFirst())
	last = name(q.GetLast())
	gets = map[string]string{}
	for _, id := range ids {
		gets[id] = name(q.Get(id))
	}
	return
}
