// Package fakewatch counts the watches established on kube-client's fake cluster. The fake API server cannot
// resume a watch from a resource version: a change made between an informer's LIST and its WATCH is lost (a
// test-double artefact, a real API server replays it). Harnesses wait for the watch before they change the cluster.
package fakewatch

import (
	"fmt"
	"sync"
	"time"

	"k8s.io/apimachinery/pkg/watch"
	dynamicfake "k8s.io/client-go/dynamic/fake"
	clienttesting "k8s.io/client-go/testing"

	"github.com/flant/kube-client/fake"
)

type Tracker struct {
	mu      sync.Mutex
	watches map[string]int // resource + "/" + namespace
}

// Track installs the watch reactor on the cluster's dynamic client.
func Track(fc *fake.Cluster) (*Tracker, error) {
	dyn, ok := fc.Client.Dynamic().(*dynamicfake.FakeDynamicClient)
	if !ok {
		return nil, fmt.Errorf("dynamic client is %T, not the fake one", fc.Client.Dynamic())
	}
	t := &Tracker{watches: map[string]int{}}
	dyn.PrependWatchReactor("*", func(action clienttesting.Action) (bool, watch.Interface, error) {
		gvr := action.GetResource()
		wi, err := dyn.Tracker().Watch(gvr, action.GetNamespace())
		if err == nil {
			t.mu.Lock()
			t.watches[gvr.Resource+"/"+action.GetNamespace()]++
			t.mu.Unlock()
		}
		return true, wi, err
	})
	return t, nil
}

func (t *Tracker) Count(resource, ns string) int {
	t.mu.Lock()
	defer t.mu.Unlock()
	return t.watches[resource+"/"+ns]
}

// Wait waits until at least n watches of resource in namespace ns were established.
func (t *Tracker) Wait(resource, ns string, n int, max time.Duration) error {
	deadline := time.Now().Add(max)
	for time.Now().Before(deadline) {
		if t.Count(resource, ns) >= n {
			return nil
		}
		time.Sleep(50 * time.Microsecond)
	}
	return fmt.Errorf("no watch of %s in namespace %q within %s", resource, ns, max)
}
