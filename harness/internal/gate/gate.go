//go:build verif

// Package gate is a cooperative scheduler for real goroutines: exactly one process runs at a time, it parks at
// the next hook point (verifhook.At) or finishes; the scheduler releases processes in the order a TLC behaviour
// prescribes. The specification models lock ownership, so a released process never blocks on a mutex held by a
// parked one.
package gate

import (
	"sync"
	"time"
)

type Proc struct {
	Name   string
	resume chan struct{}
	parked chan string
	Done   bool
	At     string // gate the process is parked at ("" before the first step)
}

type Sched struct {
	mu      sync.Mutex
	running *Proc
	Timeout time.Duration
}

func New() *Sched { return &Sched{Timeout: 3 * time.Second} }

// Spawn creates a process; its body starts running at the first Step.
func (s *Sched) Spawn(name string, body func()) *Proc {
	p := &Proc{Name: name, resume: make(chan struct{}), parked: make(chan string, 1)}
	go func() {
		<-p.resume
		body()
		p.parked <- "done"
	}()
	return p
}

// Step runs p until it parks at its next gate ("done" when its body returned, "UNSTEERABLE" on timeout).
func (s *Sched) Step(p *Proc) string {
	if p.Done {
		return "done"
	}
	s.mu.Lock()
	s.running = p
	s.mu.Unlock()
	p.resume <- struct{}{}
	select {
	case g := <-p.parked:
		s.mu.Lock()
		s.running = nil
		s.mu.Unlock()
		if g == "done" {
			p.Done = true
		}
		p.At = g
		return g
	case <-time.After(s.Timeout):
		return "UNSTEERABLE"
	}
}

// Hook is called (through verifhook) by the code under test; it parks the running process.
func (s *Sched) Hook(point string) {
	s.mu.Lock()
	p := s.running
	s.mu.Unlock()
	if p == nil {
		return
	}
	p.parked <- point
	<-p.resume
}

// Abandon lets every goroutine run freely from now on (end of a case).
func (s *Sched) Abandon(ps ...*Proc) {
	s.mu.Lock()
	s.running = nil
	s.mu.Unlock()
	for _, p := range ps {
		if p != nil && !p.Done {
			go func(p *Proc) {
				for {
					select {
					case p.resume <- struct{}{}:
					case g := <-p.parked:
						if g == "done" {
							return
						}
					case <-time.After(500 * time.Millisecond):
						return
					}
				}
			}(p)
		}
	}
}
