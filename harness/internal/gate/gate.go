//go:build verif

// Package gate is a cooperative scheduler for real goroutines: a process runs until it parks at the next hook
// point (verifhook.At) or finishes; the scheduler releases processes in the order a TLC behaviour prescribes.
// The specification models lock ownership, so a released process normally never blocks on a mutex held by a
// parked one. Where the specification says a process is BLOCKED (the lock is owned by a parked process), Probe
// releases it anyway and checks that it really does not get anywhere; it is collected later.
package gate

import (
	"bytes"
	"runtime"
	"strconv"
	"sync"
	"time"
)

func goid() int64 {
	var buf [64]byte
	n := runtime.Stack(buf[:], false)
	f := bytes.Fields(buf[:n])
	if len(f) < 2 {
		return -1
	}
	id, _ := strconv.ParseInt(string(f[1]), 10, 64)
	return id
}

type Proc struct {
	Name     string
	resume   chan struct{}
	parked   chan string
	Done     bool
	At       string // gate the process is parked at ("" before the first step)
	InFlight bool   // released by Probe, has not parked yet
}

type Sched struct {
	mu      sync.Mutex
	procs   map[int64]*Proc
	free    bool
	Timeout time.Duration
}

func New() *Sched { return &Sched{Timeout: 3 * time.Second, procs: map[int64]*Proc{}} }

// Spawn creates a process; its body starts running at the first Step.
func (s *Sched) Spawn(name string, body func()) *Proc {
	p := &Proc{Name: name, resume: make(chan struct{}), parked: make(chan string, 1)}
	go func() {
		id := goid()
		s.mu.Lock()
		s.procs[id] = p
		s.mu.Unlock()
		<-p.resume
		body()
		s.mu.Lock()
		delete(s.procs, id)
		s.mu.Unlock()
		p.parked <- "done"
	}()
	return p
}

func (s *Sched) arrived(p *Proc, g string) string {
	if g == "done" {
		p.Done = true
	}
	p.At = g
	p.InFlight = false
	return g
}

// Step runs p until it parks at its next gate ("done" when its body returned, "UNSTEERABLE" on timeout).
// A process that is in flight (see Probe) is only waited for.
func (s *Sched) Step(p *Proc) string {
	if p.Done {
		return "done"
	}
	if !p.InFlight {
		p.resume <- struct{}{}
	}
	select {
	case g := <-p.parked:
		return s.arrived(p, g)
	case <-time.After(s.Timeout):
		p.InFlight = true
		return "UNSTEERABLE"
	}
}

// Probe releases p although the specification says it is blocked and reports where it got within d
// ("BLOCKED" if nowhere: it stays in flight and is collected by a later Step).
func (s *Sched) Probe(p *Proc, d time.Duration) string {
	if p.Done || p.InFlight {
		return "BLOCKED"
	}
	p.resume <- struct{}{}
	select {
	case g := <-p.parked:
		return s.arrived(p, g)
	case <-time.After(d):
		p.InFlight = true
		return "BLOCKED"
	}
}

// Hook is called (through verifhook) by the code under test; it parks the calling process.
func (s *Sched) Hook(point string) {
	id := goid()
	s.mu.Lock()
	p := s.procs[id]
	free := s.free
	s.mu.Unlock()
	if p == nil || free {
		return
	}
	p.parked <- point
	<-p.resume
}

// Abandon lets every goroutine run freely from now on (end of a case).
func (s *Sched) Abandon(ps ...*Proc) {
	s.mu.Lock()
	s.free = true
	s.mu.Unlock()
	for _, p := range ps {
		if p != nil && !p.Done {
			go func(p *Proc) {
				for {
					select {
					case p.resume <- struct{}{}:
					case g := <-p.parked:
						if g == "done" {
							return
						}
					case <-time.After(500 * time.Millisecond):
						return
					}
				}
			}(p)
		}
	}
}
