"""Shared machinery for /verif checks: scratch handling, TLC runner, Go harness runner,
known-finding matching, evidence writer and the verdict/exit-code rule.

Exit codes (DESIGN.md section 4): 0 = property held on everything explored (KNOWN-FINDING lines allowed),
1 = VIOLATION (real-code failure not listed in known_findings.json), 2 = infrastructure failure.
"""
import hashlib
import json
import os
import re
import shutil
import subprocess
import sys
import tempfile
import time

VERIF = os.path.dirname(os.path.dirname(os.path.abspath(__file__)))
REPO = os.environ.get("VERIF_REPO", "/repo")
HARNESS = os.path.join(VERIF, "harness")
SPEC = os.path.join(VERIF, "spec")


class Infra(Exception):
    """Infrastructure failure: exit 2, never a violation."""


class Ctx:
    def __init__(self, pid, tier, seed):
        self.pid = pid
        self.tier = tier
        self.seed = seed
        self.t0 = time.time()
        self.scratch = tempfile.mkdtemp(prefix="verif.%s." % pid)
        self.failures = []      # dicts: sig, detail, replay (case data)
        self.notes = []         # DIVERGENCE / NOT-REPRODUCED lines
        self.cov = {"states": 0, "transitions": 0, "traces_validated_against_impl": 0, "samples": [],
                    "evaluations": 0, "distinct_nontrivial": 0, "tlc_runs": [], "harness_runs": []}
        self.assumptions = []

    def path(self, *p):
        d = os.path.join(self.scratch, *p)
        os.makedirs(os.path.dirname(d), exist_ok=True)
        return d

    def cleanup(self):
        if os.environ.get("VERIF_KEEP_SCRATCH"):
            print("scratch kept: " + self.scratch)
            return
        shutil.rmtree(self.scratch, ignore_errors=True)

    def quick(self):
        return self.tier == "quick"

    def pick(self, quick, thorough):
        return quick if self.tier == "quick" else thorough

    def log(self, *a):
        print("[%s %6.1fs]" % (self.pid, time.time() - self.t0), *a, flush=True)

    def fail(self, sig, detail, replay=None):
        self.failures.append({"sig": sig, "detail": detail, "replay": replay})

    def sample(self, s, limit=6):
        if len(self.cov["samples"]) < limit:
            self.cov["samples"].append(s)


# ----------------------------------------------------------------------------------------------
# TLC
# ----------------------------------------------------------------------------------------------
_TLC_CP = "/opt/veriftools/tla/tla2tools.jar:/opt/veriftools/tla/CommunityModules-deps.jar"


def _unescape_print(line):
    """A TLC PrintT of a string prints it as a quoted TLA+ string; recover the JSON payload."""
    line = line.strip()
    if not (line.startswith('"@@') and line.endswith('"')):
        return None
    try:
        s = json.loads(line)
    except Exception:
        # TLA+ escapes only \" and \\ ; fall back to manual unescape
        s = line[1:-1].replace('\\"', '"').replace("\\\\", "\\")
    return json.loads(s[2:])


def tlc(ctx, spec_dir, module, cfg, mode="mc", workers=None, timeout=600, sim_num=100, sim_depth=30,
        extra=None, expect_violation=None, heap=None, deque=False, coverage=False, want_prints=True,
        consts=None, files=None, simfile=None):
    """Run TLC on spec_dir/module.tla with config file name `cfg` (in spec_dir) or literal text.

    Returns dict(generated, distinct, depth, violated (name or None), prints (list of decoded JSON), out).
    `consts` replaces `NAME = value` lines in the cfg (per-run values such as trace file names).
    `files` maps file names to copy into the run directory.
    Raises Infra on crash / timeout / parse errors.
    """
    run = tempfile.mkdtemp(prefix="tlc.", dir=ctx.scratch)
    src = os.path.join(SPEC, spec_dir)
    for f in os.listdir(src):
        if f.endswith(".tla"):
            shutil.copy(os.path.join(src, f), run)
    # shared modules
    common = os.path.join(SPEC, "common")
    if os.path.isdir(common):
        for f in os.listdir(common):
            if f.endswith(".tla"):
                shutil.copy(os.path.join(common, f), run)
    if files:
        for name, srcp in files.items():
            shutil.copy(srcp, os.path.join(run, name))
    if "\n" in cfg:
        cfg_text = cfg
        cfg_name = "run.cfg"
    else:
        cfg_text = open(os.path.join(src, cfg)).read()
        cfg_name = cfg
    if consts:
        for k, v in consts.items():
            cfg_text, n = re.subn(r"(?m)^(\s*%s\s*=\s*).*$" % re.escape(k), lambda m: m.group(1) + v, cfg_text)
            if n == 0:
                raise Infra("constant %s not found in %s" % (k, cfg_name))
    with open(os.path.join(run, cfg_name), "w") as f:
        f.write(cfg_text)
    if workers is None:
        workers = 1 if mode == "sim" else min(16, os.cpu_count() or 4)
    java = ["java", "-XX:+UseParallelGC", "-Xss64m"]
    if heap:
        java.append("-Xmx%s" % heap)
    if deque:
        java.append("-Dtlc2.tool.queue.IStateQueue=StateDeque")
    cmd = java + ["-cp", _TLC_CP, "tlc2.TLC", "-workers", str(workers), "-metadir", os.path.join(run, "meta"),
                  "-noGenerateSpecTE", "-config", cfg_name]
    if mode == "sim":
        simarg = "num=%d" % sim_num
        if simfile:
            simarg = "file=%s,%s" % (simfile, simarg)
        cmd += ["-simulate", simarg, "-depth", str(sim_depth), "-seed", str(ctx.seed)]
    else:
        cmd += ["-seed", str(ctx.seed)]
    if coverage:
        cmd += ["-coverage", "1"]
    if extra:
        cmd += extra
    cmd.append(module + ".tla")
    t0 = time.time()
    outp = os.path.join(run, "tlc.out")
    try:
        with open(outp, "w") as of:
            p = subprocess.run(cmd, cwd=run, stdout=of, stderr=subprocess.STDOUT, timeout=timeout)
    except subprocess.TimeoutExpired:
        raise Infra("TLC timed out after %ss on %s/%s" % (timeout, spec_dir, cfg_name))
    out = open(outp, errors="replace").read()
    res = {"generated": 0, "distinct": 0, "depth": 0, "violated": None, "prints": [], "out": out,
           "wall_s": round(time.time() - t0, 2), "rc": p.returncode, "cfg": cfg_name, "module": module, "rundir": run}
    m = re.search(r"(\d+) states generated, (\d+) distinct states found", out)
    if m:
        res["generated"], res["distinct"] = int(m.group(1)), int(m.group(2))
    m = re.search(r"The number of states generated: (\d+)", out)
    if m and not res["generated"]:
        res["generated"] = int(m.group(1))
    m = re.search(r"depth of the complete state graph search is (\d+)", out)
    if m:
        res["depth"] = int(m.group(1))
    m = re.search(r"Error: Invariant (\S+) is violated", out)
    if m:
        res["violated"] = m.group(1)
    m2 = re.search(r"Error: Action property (\S+) is violated", out)
    if m2 and not res["violated"]:
        res["violated"] = m2.group(1)
    if re.search(r"Error: Temporal properties were violated", out) and not res["violated"]:
        res["violated"] = "TEMPORAL"
    if "Error: Deadlock reached" in out and not res["violated"]:
        res["violated"] = "DEADLOCK"
    if re.search(r"Postcondition .* violated|Error: .*POSTCONDITION|The postcondition.*false", out, re.I) and not res["violated"]:
        res["violated"] = "POSTCONDITION"
    if want_prints:
        for line in out.splitlines():
            if line.startswith('"@@'):
                try:
                    v = _unescape_print(line)
                except Exception:
                    v = None
                if v is not None:
                    res["prints"].append(v)
    fatal = re.search(r"(Parsing or semantic analysis failed|Error: TLC threw|java\.lang\.\w*Error|Exception in thread|"
                      r"Error: The .* could not be|Error: Evaluating|TLC encountered|Error: In evaluation|"
                      r"Error: Attempted|Error: The spec|was not enabled|Error: Unknown)", out)
    if fatal and not res["violated"]:
        tail = "\n".join(out.splitlines()[-40:])
        raise Infra("TLC failed on %s/%s: %s\n%s" % (spec_dir, cfg_name, fatal.group(1), tail))
    if fatal and res["violated"] is None:
        raise Infra("TLC error")
    if mode == "mc" and res["violated"] is None and "Model checking completed" not in out:
        # e.g. the JVM was killed from outside: a truncated exploration must never pass as a result
        raise Infra("TLC on %s/%s did not complete (rc %s)\n%s" % (spec_dir, cfg_name, p.returncode, "\n".join(out.splitlines()[-15:])))
    if mode == "sim" and "Finished in" not in out:
        raise Infra("TLC simulation on %s/%s did not complete (rc %s)" % (spec_dir, cfg_name, p.returncode))
    ctx.cov["tlc_runs"].append({"spec": spec_dir + "/" + module, "cfg": cfg_name, "mode": mode,
                                "generated": res["generated"], "distinct": res["distinct"], "depth": res["depth"],
                                "violated": res["violated"], "wall_s": res["wall_s"]})
    if mode == "mc":
        ctx.cov["states"] += res["distinct"]
        ctx.cov["transitions"] += res["generated"]
    if expect_violation is not None:
        if expect_violation is False and res["violated"]:
            raise ModelViolation(spec_dir, cfg_name, res)
        if expect_violation not in (False, True) and res["violated"] != expect_violation:
            raise Infra("TLC on %s/%s: expected violation of %s, got %s" % (spec_dir, cfg_name, expect_violation, res["violated"]))
        if expect_violation is True and not res["violated"]:
            raise Infra("TLC on %s/%s: expected a violation, got none" % (spec_dir, cfg_name))
    return res


class ModelViolation(Infra):
    """The specification itself violates one of its properties: the design check failed. This is not an
    execution of the code, so it is reported as infrastructure failure (the spec is under our control and is
    checked at development time)."""

    def __init__(self, spec_dir, cfg, res):
        tail = "\n".join(res["out"].splitlines()[-60:])
        Infra.__init__(self, "model %s/%s violates %s\n%s" % (spec_dir, cfg, res["violated"], tail))


def behaviours_from_prints(prints):
    """Split simulation prints (records with `lvl`) into behaviours. The initial state is printed once
    (lvl 1) and every behaviour restarts at lvl 2."""
    init = None
    out = []
    cur = None
    for r in prints:
        lvl = r.get("lvl")
        if lvl == 1:
            init = r
            continue
        if lvl == 2:
            if cur:
                out.append(cur)
            cur = [init] if init is not None else []
        if cur is None:
            cur = []
        cur.append(r)
    if cur:
        out.append(cur)
    return out


# ----------------------------------------------------------------------------------------------
# Go harness
# ----------------------------------------------------------------------------------------------
def go_env():
    e = dict(os.environ)
    e["GOFLAGS"] = "-mod=mod"
    e["GOPROXY"] = "off"
    e.pop("GOSUMDB", None)
    e.pop("GOTOOLCHAIN", None)
    e["QUEUE_ACTIONS_METRICS"] = "no"
    return e


def go_build(ctx, pkg, tags="verif", timeout=900):
    """Build harness/cmd/<pkg> against the repository's current working tree (REPO, default /repo).

    With VERIF_REPO pointing elsewhere (development: scratch worktrees with seeded changes) an alternative
    go.mod with the replace directive rewritten is used through -modfile, /verif/harness/go.mod is untouched."""
    out = ctx.path("bin", pkg)
    modargs = []
    if os.path.realpath(REPO) != "/repo":
        mod = open(os.path.join(HARNESS, "go.mod")).read().replace("=> /repo", "=> " + os.path.realpath(REPO))
        mf = ctx.path("alt", "go.mod")
        open(mf, "w").write(mod)
        shutil.copy(os.path.join(REPO, "go.sum"), ctx.path("alt", "go.sum"))
        modargs = ["-modfile", mf]
    else:
        # keep go.sum in sync with the repository
        try:
            shutil.copy(os.path.join(REPO, "go.sum"), os.path.join(HARNESS, "go.sum"))
        except Exception:
            pass
    cmd = ["go", "build"] + modargs + ["-tags", tags, "-o", out, "./cmd/" + pkg]
    t0 = time.time()
    try:
        p = subprocess.run(cmd, cwd=HARNESS, env=go_env(), stdout=subprocess.PIPE, stderr=subprocess.STDOUT, timeout=timeout)
    except subprocess.TimeoutExpired:
        raise Infra("go build timed out")
    if p.returncode != 0:
        raise Infra("go build of %s failed:\n%s" % (pkg, p.stdout.decode(errors="replace")[-4000:]))
    ctx.log("built %s in %.1fs" % (pkg, time.time() - t0))
    return out


def run_bin(ctx, binary, args, timeout=900, env=None, stdin=None, cwd=None):
    e = go_env()
    e["VERIF_SEED"] = str(ctx.seed)
    e["VERIF_REPO"] = REPO
    e["VERIF_TIER"] = ctx.tier
    if env:
        e.update(env)
    t0 = time.time()
    try:
        p = subprocess.run([binary] + args, env=e, stdout=subprocess.PIPE, stderr=subprocess.PIPE, timeout=timeout,
                           input=stdin, cwd=cwd or ctx.scratch)
    except subprocess.TimeoutExpired:
        raise Infra("harness %s timed out after %ss" % (os.path.basename(binary), timeout))
    res = {"rc": p.returncode, "stdout": p.stdout.decode(errors="replace"), "stderr": p.stderr.decode(errors="replace"),
           "wall_s": round(time.time() - t0, 2)}
    ctx.cov["harness_runs"].append({"bin": os.path.basename(binary), "args": [a if len(a) < 80 else "..." for a in args],
                                    "rc": p.returncode, "wall_s": res["wall_s"]})
    return res


def run_sharded(ctx, binary, cases, mkargs, shards=6, timeout=2400, tag="shard"):
    """Run `binary` on `cases` split over several processes. mkargs(inp, outp) -> argument list. Returns the result rows
    in case order (each harness numbers its rows from 0; the order within a shard is the input order)."""
    shards = max(1, min(shards, len(cases)))
    parts = [cases[i::shards] for i in range(shards)]
    procs = []
    e = go_env()
    e["VERIF_SEED"] = str(ctx.seed)
    e["VERIF_TIER"] = ctx.tier
    e["VERIF_REPO"] = REPO
    t0 = time.time()
    for k, part in enumerate(parts):
        inp, outp = ctx.path(tag, "in_%d.jsonl" % k), ctx.path(tag, "out_%d.jsonl" % k)
        write_jsonl(inp, part)
        errp = open(ctx.path(tag, "err_%d.txt" % k), "w")
        procs.append((subprocess.Popen([binary] + mkargs(inp, outp), env=e, stdout=subprocess.DEVNULL, stderr=errp, cwd=ctx.scratch), outp, errp, len(part)))
    rows = [None] * len(cases)
    for k, (p, outp, errp, n) in enumerate(procs):
        try:
            rc = p.wait(timeout=max(1, timeout - (time.time() - t0)))
        except subprocess.TimeoutExpired:
            for q, _, _, _ in procs:
                q.kill()
            raise Infra("harness %s timed out after %ss" % (os.path.basename(binary), timeout))
        errp.close()
        if rc != 0:
            raise Infra("harness %s shard %d failed: %s" % (os.path.basename(binary), k, open(errp.name).read()[-1500:]))
        res = read_jsonl(outp)
        if len(res) != n:
            raise Infra("harness %s shard %d: %d results for %d cases" % (os.path.basename(binary), k, len(res), n))
        for j, r in enumerate(res):
            rows[k + j * shards] = r
    ctx.cov["harness_runs"].append({"bin": os.path.basename(binary), "shards": shards, "cases": len(cases), "wall_s": round(time.time() - t0, 2)})
    return rows


def replay_payload(harness, args, case, human=None):
    """What a replay file carries: enough to run that single case again (`vcheck Cxx --replay file`)."""
    return {"harness": harness, "args": args, "case": case, "human": human}


def do_replay(ctx):
    """Re-run the single case stored in a replay file on the current tree. Exit 1 + VIOLATION if it still fails."""
    rp = json.load(open(ctx.replay))
    pl = rp.get("replay") or {}
    if not isinstance(pl, dict) or "harness" not in pl:
        raise Infra("replay file %s carries no re-runnable case" % ctx.replay)
    binary = go_build(ctx, pl["harness"])
    inp, outp = ctx.path("replay_in.jsonl"), ctx.path("replay_out.jsonl")
    write_jsonl(inp, [pl["case"]])
    args = [a.replace("{in}", inp).replace("{out}", outp) for a in pl["args"]]
    if any("{hookbin}" in a for a in args):
        hb = go_build(ctx, "hookbin")
        args = [a.replace("{hookbin}", hb) for a in args]
    r = run_bin(ctx, binary, args, timeout=600)
    if r["rc"] != 0:
        raise Infra("replay harness failed: " + r["stderr"][-1500:])
    res = read_jsonl(outp)
    if not res:
        raise Infra("replay produced no result")
    o = res[0]
    ctx.cov["evaluations"] = 1
    ctx.cov["traces_validated_against_impl"] = 1
    ctx.cov["states"] = ctx.cov["transitions"] = 1
    ctx.sample(pl.get("human") or "replayed case")
    sigs = o.get("lost") or o.get("sigs") or ([o["sig"]] if not o.get("ok") else [])
    if not o.get("ok"):
        sigs = list(sigs) + [x["sig"] for x in (o.get("also") or [])]
    want = rp.get("signature")
    print("REPLAY result: ok=%s signatures=%s (stored signature %s)" % (o.get("ok"), sigs, want))
    for sg in sigs:
        if sg.startswith(ctx.pid + "/"):
            ctx.fail(sg, o.get("detail", ""), pl)
    finish(ctx, rule="single stored case re-executed on the current tree")


def read_jsonl(path):
    out = []
    with open(path) as f:
        for line in f:
            line = line.strip()
            if line:
                out.append(json.loads(line))
    return out


def write_json(path, obj):
    with open(path, "w") as f:
        json.dump(obj, f)


def write_jsonl(path, rows):
    with open(path, "w") as f:
        for r in rows:
            f.write(json.dumps(r, sort_keys=True))
            f.write("\n")


# ----------------------------------------------------------------------------------------------
# verdict
# ----------------------------------------------------------------------------------------------
def load_known():
    out = []
    p = os.path.join(VERIF, "known_findings.json")
    if os.path.exists(p):
        out += json.load(open(p)).get("findings", [])
    d = os.path.join(VERIF, "known_findings.d")
    if os.path.isdir(d):
        for f in sorted(os.listdir(d)):
            if f.endswith(".json"):
                out += json.load(open(os.path.join(d, f))).get("findings", [])
    return out


def finish(ctx, level="model_checking", extra_cov=None, rule=None):
    """Apply the verdict rule, write evidence, print the result lines and exit."""
    known = [k for k in load_known() if k.get("property") == ctx.pid and k.get("status") == "open"]
    known_hit = {}
    unknown = []
    for f in ctx.failures:
        hit = None
        for k in known:
            if re.fullmatch(k["signature"], f["sig"]):
                hit = k
                break
        if hit:
            known_hit.setdefault(hit["signature"], [hit, 0, f])
            known_hit[hit["signature"]][1] += 1
        else:
            unknown.append(f)
    for n in ctx.notes[:20]:
        print(n)
    for sig, (k, n, f) in sorted(known_hit.items()):
        print("KNOWN-FINDING: property=%s %s [%s] (%d occurrence(s) in this run)" % (ctx.pid, k["description"], k["signature"], n))
    rc = 0
    replay_paths = []
    if unknown:
        rc = 1
        os.makedirs(os.path.join(VERIF, "replays"), exist_ok=True)
        seen = set()
        for f in unknown:
            if f["sig"] in seen:
                continue
            seen.add(f["sig"])
            h = hashlib.sha1(json.dumps(f, sort_keys=True, default=str).encode()).hexdigest()[:10]
            rp = os.path.join(VERIF, "replays", "%s-%s.json" % (ctx.pid, h))
            with open(rp, "w") as fh:
                json.dump({"property": ctx.pid, "signature": f["sig"], "detail": f["detail"], "replay": f["replay"],
                           "seed": ctx.seed, "tier": ctx.tier}, fh, indent=1, default=str)
            replay_paths.append(rp)
            print("FAILURE signature=%s detail=%s" % (f["sig"], str(f["detail"])[:600]))
            print("VIOLATION property=%s replay=%s" % (ctx.pid, rp))
            if len(seen) >= 10:
                break
    cov = dict(ctx.cov)
    if extra_cov:
        cov.update(extra_cov)
    if rule:
        cov["rule"] = rule
    cov["known_findings_seen"] = sorted(known_hit.keys())
    cov["unknown_failure_signatures"] = sorted({f["sig"] for f in unknown})
    cov["notes"] = ctx.notes[:50]
    if not cov.get("samples"):
        cov["samples"] = ["(no sample recorded)"]
    if level == "model_checking":
        cov["states"] = max(1, int(cov.get("states", 0)))
        cov["transitions"] = max(1, int(cov.get("transitions", 0)))
    ev = {"property_id": ctx.pid, "tier": ctx.tier, "seed": ctx.seed, "level": level, "coverage": cov,
          "assumptions": ctx.assumptions, "wall_s": round(time.time() - ctx.t0, 2), "violations": len(unknown)}
    # evidence describes runs on /repo itself; a run against another checkout (VERIF_REPO: scratch worktrees with seeded
    # changes, development) must not overwrite it
    evdir = os.path.join(VERIF, "evidence") if os.path.realpath(REPO) == "/repo" else os.path.join(tempfile.gettempdir(), "verif-evidence-other-tree")
    os.makedirs(evdir, exist_ok=True)
    with open(os.path.join(evdir, ctx.pid + ".json"), "w") as fh:
        json.dump(ev, fh, indent=1, default=str)
    print("RESULT property=%s tier=%s seed=%d failures=%d known=%d unknown=%d wall=%.1fs" %
          (ctx.pid, ctx.tier, ctx.seed, len(ctx.failures), len(ctx.failures) - len(unknown), len(unknown), time.time() - ctx.t0))
    ctx.cleanup()
    sys.exit(rc)


def main(check_fns):
    """Entry point used by vcheck: check_fns maps property id -> function(ctx)."""
    import argparse
    ap = argparse.ArgumentParser()
    ap.add_argument("pid")
    ap.add_argument("--tier", default=os.environ.get("VERIF_TIER", "quick"))
    ap.add_argument("--seed", type=int, default=int(os.environ.get("VERIF_SEED", "1") or 1))
    ap.add_argument("--replay", default=None)
    ap.add_argument("--keep", action="store_true")
    a = ap.parse_args()
    if a.tier not in ("quick", "thorough"):
        a.tier = "quick"
    if a.pid not in check_fns:
        print("unknown property", a.pid)
        sys.exit(2)
    ctx = Ctx(a.pid, a.tier, a.seed)
    ctx.replay = a.replay
    try:
        if a.replay and a.pid in getattr(sys.modules.get("registry"), "GENERIC_REPLAY", set()):
            do_replay(ctx)
        check_fns[a.pid](ctx)
    except Infra as e:
        print("INFRASTRUCTURE-FAILURE property=%s: %s" % (a.pid, e))
        if not a.keep:
            ctx.cleanup()
        sys.exit(2)
    except SystemExit:
        raise
    except Exception:
        import traceback
        traceback.print_exc()
        print("INFRASTRUCTURE-FAILURE property=%s: internal error" % a.pid)
        if not a.keep:
            ctx.cleanup()
        sys.exit(2)
