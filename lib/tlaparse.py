"""Parser for TLC's textual state output (`-simulate file=...` behaviour files and error traces).

Values are mapped to Python: sequences/tuples -> list, sets -> list (sorted as printed), records and
functions -> dict, strings -> str, integers -> int, TRUE/FALSE -> bool, model values -> str.
"""
import re

_TOK = re.compile(r'''\s*(?:
    (?P<str>"(?:[^"\\]|\\.)*") |
    (?P<num>-?\d+) |
    (?P<sym><<|>>|\|->|:>|@@|\[|\]|\{|\}|\(|\)|,|/\\|=) |
    (?P<id>[A-Za-z_][A-Za-z_0-9!]*)
)''', re.X)


def _tokens(s):
    pos = 0
    out = []
    n = len(s)
    while pos < n:
        m = _TOK.match(s, pos)
        if not m:
            if s[pos:].strip() == "":
                break
            raise ValueError("cannot tokenise at %r" % s[pos:pos + 40])
        pos = m.end()
        if m.group("str") is not None:
            raw = m.group("str")[1:-1]
            out.append(("str", raw.replace('\\"', '"').replace("\\\\", "\\")))
        elif m.group("num") is not None:
            out.append(("num", int(m.group("num"))))
        elif m.group("sym") is not None:
            out.append(("sym", m.group("sym")))
        else:
            out.append(("id", m.group("id")))
    return out


class _P:
    def __init__(self, toks):
        self.t = toks
        self.i = 0

    def peek(self):
        return self.t[self.i] if self.i < len(self.t) else (None, None)

    def next(self):
        tok = self.t[self.i]
        self.i += 1
        return tok

    def expect(self, sym):
        k, v = self.next()
        if v != sym:
            raise ValueError("expected %s got %r" % (sym, v))

    def value(self):
        k, v = self.next()
        if k == "str":
            return v
        if k == "num":
            return v
        if k == "id":
            if v == "TRUE":
                return True
            if v == "FALSE":
                return False
            return v
        if v == "<<":
            out = []
            if self.peek()[1] == ">>":
                self.next()
                return out
            while True:
                out.append(self.value())
                k2, v2 = self.next()
                if v2 == ">>":
                    return out
                if v2 != ",":
                    raise ValueError("bad tuple")
        if v == "{":
            out = []
            if self.peek()[1] == "}":
                self.next()
                return out
            while True:
                out.append(self.value())
                k2, v2 = self.next()
                if v2 == "}":
                    return out
                if v2 != ",":
                    raise ValueError("bad set")
        if v == "[":
            out = {}
            while True:
                k2, name = self.next()
                self.expect("|->")
                out[str(name)] = self.value()
                k3, v3 = self.next()
                if v3 == "]":
                    return out
                if v3 != ",":
                    raise ValueError("bad record")
        if v == "(":
            out = {}
            while True:
                key = self.value()
                self.expect(":>")
                out[str(key)] = self.value()
                k3, v3 = self.next()
                if v3 == ")":
                    return out
                if v3 != "@@":
                    raise ValueError("bad function")
        raise ValueError("unexpected token %r" % (v,))


def parse_value(s):
    return _P(_tokens(s)).value()


def parse_state(block):
    """block: text of `/\\ v1 = ... /\\ v2 = ...`"""
    toks = _tokens(block)
    p = _P(toks)
    st = {}
    while p.peek()[0] is not None:
        p.expect("/\\")
        k, name = p.next()
        p.expect("=")
        st[name] = p.value()
    return st


_STATE_HDR = re.compile(r"^STATE_(\d+) ==\s*$", re.M)


def parse_behaviour_file(path):
    txt = open(path, errors="replace").read()
    parts = _STATE_HDR.split(txt)
    # parts: [preamble, n1, body1, n2, body2, ...]
    states = []
    for i in range(1, len(parts), 2):
        body = parts[i + 1]
        # cut trailing comment / module end
        body = re.split(r"^\\\*|^====", body, flags=re.M)[0]
        states.append(parse_state(body))
    return states


_ERR_STATE = re.compile(r"^State (\d+): <([^>]*)>\s*$", re.M)


def parse_error_trace(out):
    """Parse the counterexample in TLC's stdout: list of (action header, state dict)."""
    res = []
    ms = list(_ERR_STATE.finditer(out))
    for i, m in enumerate(ms):
        end = ms[i + 1].start() if i + 1 < len(ms) else len(out)
        body = out[m.end():end]
        lines = []
        for line in body.splitlines():
            if line.startswith("/\\") or line.startswith("  ") or line.startswith("\t"):
                lines.append(line)
            elif line.strip() == "":
                if lines:
                    break
            else:
                break
        try:
            res.append((m.group(2), parse_state("\n".join(lines))))
        except Exception:
            res.append((m.group(2), {}))
    return res
